(* Memo/FineGrained.v — fine-grained model of intl-memoizer/src/concurrent.rs: the Mutex is explicit and one
   `with_try_get` call is a SEQUENCE of micro-steps that other threads may interleave with.  Definitions only.

   Memo/Concurrent.v takes a whole with_try_get as one atomic step because the MutexGuard is taken first and
   dropped last.  Here that is no longer assumed: a thread executes its current request as

     micro-step    concurrent.rs with_try_get                                                        pc before -> after
     Lock          l.32  let mut map = self.map.lock().unwrap();      blocks unless the mutex is free    PIdle   -> PLocked
     LookupType    l.33  map.entry::<HashMap<I::Args, I>>().or_insert_with(HashMap::new)                 PLocked -> PCache
     LookupArgs    l.37  match cache.entry(args.clone()) { Occupied => e | Vacant => .. }                PCache  -> PEntry e | PMiss
     Construct     l.40  let val = I::construct(self.lang.clone(), args)?;   (`?`: Err leaves at once)   PMiss   -> PBuilt val | PRet (Err er)
     Insert        l.41  entry.insert(val)                                                               PBuilt val -> PEntry val
     Callback      l.44  Ok(cb(e))                                                                       PEntry e -> PRet (Ok (cb e))
     Unlock        l.45  `}`: the guard `map` is dropped, the result is returned                         PRet r  -> PIdle

   Only Lock looks at the mutex (`f_holder`); the other micro-steps just run — that at most one thread is ever
   between Lock and Unlock is a THEOREM (Memo/FineGrainedProofs.v, `Mutex`), not part of the step function.
   The shared data (`f_memo`, the same `lmemo` as in Memoizer.v), the construct counter and the ghost construct
   log are read and written by the micro-steps exactly where the Rust code reads and writes them; the flat map
   (type, args) -> instance of Memoizer.v makes LookupType a pure control step (the empty inner HashMap it may
   leave behind is not observable).  `e` (a `&mut I` into the map in Rust) is the instance itself here.

   A fine schedule is a list of thread ids; scheduling a thread that is blocked on the mutex, has finished, or
   does not exist is a no-op (as in Concurrent.v).

   `pending`/`f_abs`: what the rest of the critical section of the thread inside will do to the shared state —
   for pc = PLocked this is literally `with_try_get` of Memoizer.v, so the composition of the micro-steps of one
   request is with_try_get (FineGrainedProofs.v: `fine_abs_step`, `fine_request_is_with_try_get`).

   The second half of the file is a BROKEN variant (check-then-act: the lock is released between the lookup and
   construct/insert), used only to show that the theorems depend on the critical section.                    *)
From FluentV Require Export Memo.Memoizer Memo.Concurrent.

(* names of the micro-steps (documentation and examples: `fine_actions`) *)
Inductive micro := MLock | MLookupType | MLookupArgs | MConstruct | MInsert | MCallback | MUnlock.

Section Fine.
Variables I E R : Type.
Variable construct : lang -> type_id -> args -> nat -> result I E.
Variable callback : cb_id -> I -> R.

(* program counter + local registers of a thread inside concurrent.rs with_try_get *)
Inductive pc :=
| PIdle                          (* outside with_try_get; next: Lock *)
| PLocked                        (* holds the guard `map`; next: LookupType *)
| PCache                         (* has `cache`; next: LookupArgs *)
| PMiss                          (* Entry::Vacant; next: Construct *)
| PBuilt (val : I)               (* `val` constructed; next: Insert *)
| PEntry (e : I)                 (* has `e`; next: Callback *)
| PRet (r : result R E).         (* result computed (or `?` taken); next: Unlock = drop of the guard *)

Record fthread := mk_fthread {
  ft_prog : list request;                       (* requests still to issue; the head is the one in flight *)
  ft_pc : pc;
  ft_results : list (request * result R E)      (* what it got back so far, oldest first *)
}.

Record fstate := mk_fstate {
  f_memo : lmemo I;                             (* the data behind the Mutex *)
  f_counter : nat;                              (* construct calls so far *)
  f_trace : list cevent;                        (* ghost: construct log, newest first *)
  f_holder : option nat;                        (* the Mutex: None = free, Some tid = locked by tid *)
  f_threads : list fthread
}.

Definition idle_thread : fthread := mk_fthread [] PIdle [].

Definition f_init (l : lang) (threads : list (list request)) : fstate :=
  mk_fstate (lm_new I l) 0 [] None (map (fun p => mk_fthread p PIdle []) threads).

Definition in_cs (p : pc) : bool := match p with PIdle => false | _ => true end.

(* the micro-steps strictly inside the critical section (LookupType .. Callback) on the shared data
   (m, n, tr) for the request (t, a, cb): they do not look at the mutex *)
Definition inner_step (p : pc) (m : lmemo I) (n : nat) (tr : list cevent) (t : type_id) (a : args) (cb : cb_id)
  : lmemo I * nat * list cevent * pc :=
  match p with
  | PLocked => (m, n, tr, PCache)                                            (* LookupType *)
  | PCache =>                                                                (* LookupArgs *)
      match tfind I (t, a) (lm_table I m) with
      | Some e => (m, n, tr, PEntry e)
      | None => (m, n, tr, PMiss)
      end
  | PMiss =>                                                                 (* Construct *)
      match construct (lm_lang I m) t a n with
      | Err er => (m, S n, mk_cevent (lm_lang I m) t a n false :: tr, PRet (Err er))
      | Ok val => (m, S n, mk_cevent (lm_lang I m) t a n true :: tr, PBuilt val)
      end
  | PBuilt val => (mk_lmemo I (lm_lang I m) (((t, a), val) :: lm_table I m), n, tr, PEntry val)   (* Insert *)
  | PEntry e => (m, n, tr, PRet (Ok (callback cb e)))                        (* Callback *)
  | PIdle => (m, n, tr, PIdle)                                               (* not inside: handled by fine_step *)
  | PRet r => (m, n, tr, PRet r)                                             (* Unlock: handled by fine_step *)
  end.

(* one scheduling of thread tid *)
Definition fine_step (s : fstate) (tid : nat) : fstate :=
  match nth_error (f_threads s) tid with
  | Some th =>
      match ft_prog th with
      | rq :: rest =>
          match ft_pc th with
          | PIdle =>                                                         (* Lock *)
              match f_holder s with
              | None => mk_fstate (f_memo s) (f_counter s) (f_trace s) (Some tid)
                                  (set_nth tid (mk_fthread (rq :: rest) PLocked (ft_results th)) (f_threads s))
              | Some _ => s                                                  (* blocked *)
              end
          | PRet r =>                                                        (* Unlock + return *)
              mk_fstate (f_memo s) (f_counter s) (f_trace s) None
                        (set_nth tid (mk_fthread rest PIdle (ft_results th ++ [(rq, r)])) (f_threads s))
          | p =>
              let '(t, a, cb) := rq in
              let '(m', n', tr', p') := inner_step p (f_memo s) (f_counter s) (f_trace s) t a cb in
              mk_fstate m' n' tr' (f_holder s)
                        (set_nth tid (mk_fthread (rq :: rest) p' (ft_results th)) (f_threads s))
          end
      | [] => s                                                              (* finished *)
      end
  | None => s                                                                (* no such thread *)
  end.

Definition fine_run_from (s : fstate) (fs : list nat) : fstate := fold_left fine_step fs s.
Definition fine_run (l : lang) (threads : list (list request)) (fs : list nat) : fstate :=
  fine_run_from (f_init l threads) fs.

(* which micro-step a scheduling of tid performs (None = no-op) *)
Definition fine_action (s : fstate) (tid : nat) : option micro :=
  match nth_error (f_threads s) tid with
  | Some th =>
      match ft_prog th with
      | _ :: _ =>
          match ft_pc th with
          | PIdle => match f_holder s with None => Some MLock | Some _ => None end
          | PLocked => Some MLookupType
          | PCache => Some MLookupArgs
          | PMiss => Some MConstruct
          | PBuilt _ => Some MInsert
          | PEntry _ => Some MCallback
          | PRet _ => Some MUnlock
          end
      | [] => None
      end
  | None => None
  end.

Fixpoint fine_actions (s : fstate) (fs : list nat) : list (nat * option micro) :=
  match fs with
  | [] => []
  | tid :: r => (tid, fine_action s tid) :: fine_actions (fine_step s tid) r
  end.

(* does this scheduling of tid acquire the mutex? *)
Definition lock_succeeds (s : fstate) (tid : nat) : bool :=
  match nth_error (f_threads s) tid with
  | Some th =>
      match ft_prog th, ft_pc th, f_holder s with
      | _ :: _, PIdle, None => true
      | _, _, _ => false
      end
  | None => false
  end.

(* the coarse schedule a fine schedule induces: the thread ids in the order their Lock steps succeeded *)
Fixpoint lock_order (s : fstate) (fs : list nat) : list nat :=
  match fs with
  | [] => []
  | tid :: r => if lock_succeeds s tid then tid :: lock_order (fine_step s tid) r
                else lock_order (fine_step s tid) r
  end.

(* the observable state, as a state of the coarse model: map, counter, log, remaining programs, results *)
Definition f_proj (s : fstate) : cstate I E R :=
  mk_cstate I E R (f_memo s) (f_counter s) (f_trace s) (map ft_prog (f_threads s)) (map ft_results (f_threads s)).

(* every thread has issued all its requests *)
Definition f_finished (s : fstate) : bool :=
  forallb (fun th => match ft_prog th with [] => true | _ => false end) (f_threads s).

(* what the REST of the critical section of a thread at pc p will do to the shared data (m, n):
   (map, counter, result, construct events still to be logged) — for PLocked it is with_try_get itself *)
Definition pending (p : pc) (m : lmemo I) (n : nat) (t : type_id) (a : args) (cb : cb_id)
  : lmemo I * nat * result R E * list cevent :=
  match p with
  | PIdle | PLocked | PCache => with_try_get I E R construct callback m n t a cb
  | PMiss =>
      match construct (lm_lang I m) t a n with
      | Err er => (m, S n, Err er, [mk_cevent (lm_lang I m) t a n false])
      | Ok val => (mk_lmemo I (lm_lang I m) (((t, a), val) :: lm_table I m), S n, Ok (callback cb val),
                   [mk_cevent (lm_lang I m) t a n true])
      end
  | PBuilt val => (mk_lmemo I (lm_lang I m) (((t, a), val) :: lm_table I m), n, Ok (callback cb val), [])
  | PEntry e => (m, n, Ok (callback cb e), [])
  | PRet r => (m, n, r, [])
  end.

(* the coarse state in which thread tid (program rq :: rest, results res) has completed `x = pending ..` *)
Definition commit (s : fstate) (tid : nat) (rq : request) (rest : list request)
  (res : list (request * result R E)) (x : lmemo I * nat * result R E * list cevent) : cstate I E R :=
  let '(m', n', r, evs) := x in
  mk_cstate I E R m' n' (evs ++ f_trace s) (set_nth tid rest (map ft_prog (f_threads s)))
            (set_nth tid (res ++ [(rq, r)]) (map ft_results (f_threads s))).

(* abstraction: the observable state once the thread inside the critical section (if any) has left it *)
Definition f_abs (s : fstate) : cstate I E R :=
  match f_holder s with
  | None => f_proj s
  | Some tid =>
      match nth_error (f_threads s) tid with
      | Some th =>
          match ft_prog th with
          | rq :: rest =>
              let '(t, a, cb) := rq in
              commit s tid rq rest (ft_results th) (pending (ft_pc th) (f_memo s) (f_counter s) t a cb)
          | [] => f_proj s
          end
      | None => f_proj s
      end
  end.

(* ------------------------------------------------------------------------------------------------------------
   BROKEN variant — check-then-act.  The guard is dropped after the lookup and re-taken for the insert:

       let hit = { let map = self.map.lock().unwrap(); map..get(&args).cloned() };      // Lock LookupType LookupArgs [Unlock]
       match hit { Some(e) => Ok(cb(e)),                                               // (hit: callback under the 1st guard)
                   None => { let val = I::construct(self.lang.clone(), args)?;          // Construct — NOT under the lock
                             let mut map = self.map.lock().unwrap();                    // Lock (2nd)
                             let e = map..insert(args, val); Ok(cb(e)) } }              // Insert Callback Unlock

   This is NOT the code of concurrent.rs; it is the mutant the reduction theorem must exclude.               *)

Inductive bpc :=
| BIdle                          (* next: Lock *)
| BLocked                        (* holding; next: LookupType *)
| BCache                         (* holding; next: LookupArgs *)
| BMissL                         (* miss, still holding; next: Unlock  (the early release) *)
| BMissU                         (* not holding; next: Construct *)
| BBuiltU (val : I)              (* constructed, not holding; next: Lock (2nd) *)
| BBuiltL (val : I)              (* holding again; next: Insert *)
| BEntry (e : I)                 (* holding; next: Callback *)
| BRet (r : result R E)          (* holding; next: Unlock + return *)
| BRetU (r : result R E).        (* not holding (construct failed outside the lock); next: return *)

Record bthread := mk_bthread {
  bt_prog : list request;
  bt_pc : bpc;
  bt_results : list (request * result R E)
}.

Record bstate := mk_bstate {
  b_memo : lmemo I;
  b_counter : nat;
  b_trace : list cevent;
  b_holder : option nat;
  b_threads : list bthread
}.

Definition b_init (l : lang) (threads : list (list request)) : bstate :=
  mk_bstate (lm_new I l) 0 [] None (map (fun p => mk_bthread p BIdle []) threads).

Definition broken_step (s : bstate) (tid : nat) : bstate :=
  match nth_error (b_threads s) tid with
  | Some th =>
      match bt_prog th with
      | rq :: rest =>
          let '(t, a, cb) := rq in
          let m := b_memo s in
          let n := b_counter s in
          let goto h p := mk_bstate m n (b_trace s) h
                            (set_nth tid (mk_bthread (rq :: rest) p (bt_results th)) (b_threads s)) in
          let ret r := mk_bstate m n (b_trace s) None
                         (set_nth tid (mk_bthread rest BIdle (bt_results th ++ [(rq, r)])) (b_threads s)) in
          match bt_pc th with
          | BIdle => match b_holder s with None => goto (Some tid) BLocked | Some _ => s end      (* Lock *)
          | BLocked => goto (b_holder s) BCache                                                   (* LookupType *)
          | BCache =>                                                                             (* LookupArgs *)
              match tfind I (t, a) (lm_table I m) with
              | Some e => goto (b_holder s) (BEntry e)
              | None => goto (b_holder s) BMissL
              end
          | BMissL => goto None BMissU                                                            (* Unlock (early) *)
          | BMissU =>                                                                             (* Construct, unlocked *)
              match construct (lm_lang I m) t a n with
              | Err er => mk_bstate m (S n) (mk_cevent (lm_lang I m) t a n false :: b_trace s) (b_holder s)
                            (set_nth tid (mk_bthread (rq :: rest) (BRetU (Err er)) (bt_results th)) (b_threads s))
              | Ok val => mk_bstate m (S n) (mk_cevent (lm_lang I m) t a n true :: b_trace s) (b_holder s)
                            (set_nth tid (mk_bthread (rq :: rest) (BBuiltU val) (bt_results th)) (b_threads s))
              end
          | BBuiltU val => match b_holder s with None => goto (Some tid) (BBuiltL val) | Some _ => s end   (* Lock (2nd) *)
          | BBuiltL val =>                                                                        (* Insert *)
              mk_bstate (mk_lmemo I (lm_lang I m) (((t, a), val) :: lm_table I m)) n (b_trace s) (b_holder s)
                (set_nth tid (mk_bthread (rq :: rest) (BEntry val) (bt_results th)) (b_threads s))
          | BEntry e => goto (b_holder s) (BRet (Ok (callback cb e)))                             (* Callback *)
          | BRet r => ret r                                                                       (* Unlock + return *)
          | BRetU r =>                                                                            (* return (no guard held) *)
              mk_bstate m n (b_trace s) (b_holder s)
                (set_nth tid (mk_bthread rest BIdle (bt_results th ++ [(rq, r)])) (b_threads s))
          end
      | [] => s
      end
  | None => s
  end.

Definition broken_run (l : lang) (threads : list (list request)) (fs : list nat) : bstate :=
  fold_left broken_step fs (b_init l threads).

Definition b_finished (s : bstate) : bool :=
  forallb (fun th => match bt_prog th with [] => true | _ => false end) (b_threads s).

End Fine.

Arguments PIdle {I E R}.
Arguments PLocked {I E R}.
Arguments PCache {I E R}.
Arguments PMiss {I E R}.
Arguments PBuilt {I E R} val.
Arguments PEntry {I E R} e.
Arguments PRet {I E R} r.

(* Memo/FineGrainedProofs.v — the reduction theorem for Memo/FineGrained.v (property C14, "lock granularity"):
   every run of the fine-grained model (explicit mutex, one with_try_get = up to 7 interleavable micro-steps) is,
   observably, a run of the coarse model of Memo/Concurrent.v (one with_try_get = one atomic step) under the
   schedule given by the order in which the Lock steps succeeded.  Then the coarse theorems of MemoProofs.v are
   transported to every fine schedule.  Last: the check-then-act variant constructs a key twice.             *)
From FluentV Require Import Base.Bytes Base.BytesFacts Base.Outcome Memo.Memoizer Memo.Concurrent Memo.MemoProofs
  Memo.FineGrained.
From Coq Require Import Lia Arith PeanoNat List.
Import ListNotations.

(* ------------------------------------------------------------------ generic list facts *)

Lemma map_set_nth {X Y} (f : X -> Y) i x l : map f (set_nth i x l) = set_nth i (f x) (map f l).
Proof. revert i. induction l as [|y l IH]; intros [|i]; cbn; auto. f_equal. apply IH. Qed.

Lemma set_nth_set_nth {X} i (x y : X) l : set_nth i x (set_nth i y l) = set_nth i x l.
Proof. revert i. induction l as [|z l IH]; intros [|i]; cbn; auto. f_equal. apply IH. Qed.

Lemma forallb_map {X Y} (f : X -> Y) (p : Y -> bool) l : forallb p (map f l) = forallb (fun x => p (f x)) l.
Proof. induction l as [|x l IH]; cbn; [reflexivity|]. rewrite IH. reflexivity. Qed.

Lemma filter_app_length_le {X} (p : X -> bool) a b : length (filter p b) <= length (filter p (a ++ b)).
Proof. rewrite filter_app, app_length. lia. Qed.

Section FineProofs.
Variables I E R : Type.
Variable construct : lang -> type_id -> args -> nat -> result I E.
Variable callback : cb_id -> I -> R.

Notation fstate := (fstate I E R).
Notation fthread := (fthread I E R).
Notation cstate := (cstate I E R).
Notation mk_fstate := (mk_fstate I E R).
Notation mk_fthread := (mk_fthread I E R).
Notation f_memo := (f_memo I E R).
Notation f_counter := (f_counter I E R).
Notation f_trace := (f_trace I E R).
Notation f_holder := (f_holder I E R).
Notation f_threads := (f_threads I E R).
Notation ft_prog := (ft_prog I E R).
Notation ft_pc := (ft_pc I E R).
Notation ft_results := (ft_results I E R).
Notation in_cs := (in_cs I E R).
Notation f_init := (f_init I E R).
Notation f_proj := (f_proj I E R).
Notation f_finished := (f_finished I E R).
Notation inner_step := (inner_step I E R construct callback).
Notation fine_step := (fine_step I E R construct callback).
Notation fine_run_from := (fine_run_from I E R construct callback).
Notation fine_run := (fine_run I E R construct callback).
Notation lock_succeeds := (lock_succeeds I E R).
Notation lock_order := (lock_order I E R construct callback).
Notation pending := (pending I E R construct callback).
Notation commit := (commit I E R).
Notation f_abs := (f_abs I E R construct callback).
Notation sched_step := (sched_step I E R construct callback).
Notation run_schedule := (run_schedule I E R construct callback).
Notation with_try_get := (with_try_get I E R construct callback).

(* ---- invariant: mutual exclusion.  The mutex is held exactly by the thread that is between Lock and Unlock;
        there is at most one such thread; it has a request in flight. *)
Record Mutex (s : fstate) : Prop := {
  mx_holder : forall tid, f_holder s = Some tid ->
      exists th, nth_error (f_threads s) tid = Some th /\ in_cs (ft_pc th) = true;
  mx_inside : forall tid th, nth_error (f_threads s) tid = Some th -> in_cs (ft_pc th) = true ->
      f_holder s = Some tid /\ ft_prog th <> []
}.

Lemma mutex_init l threads : Mutex (f_init l threads).
Proof.
  constructor; cbn [FineGrained.f_init FineGrained.f_holder FineGrained.f_threads].
  - intros tid H. discriminate.
  - intros tid th Hn C. exfalso. apply nth_error_In in Hn. apply in_map_iff in Hn.
    destruct Hn as [p [Hp _]]. subst th. cbn in C. discriminate.
Qed.

(* two threads inside at once: impossible *)
Lemma mutex_exclusive (s : fstate) t1 t2 th1 th2 : Mutex s ->
  nth_error (f_threads s) t1 = Some th1 -> in_cs (ft_pc th1) = true ->
  nth_error (f_threads s) t2 = Some th2 -> in_cs (ft_pc th2) = true -> t1 = t2.
Proof.
  intros HM H1 C1 H2 C2.
  destruct (mx_inside _ HM _ _ H1 C1) as [A _]. destruct (mx_inside _ HM _ _ H2 C2) as [B _]. congruence.
Qed.

Lemma mutex_update (s : fstate) tid th th' h' m n tr :
  Mutex s -> nth_error (f_threads s) tid = Some th ->
  (f_holder s = None \/ f_holder s = Some tid) ->
  (in_cs (ft_pc th') = true -> h' = Some tid /\ ft_prog th' <> []) ->
  (in_cs (ft_pc th') = false -> h' = None) ->
  Mutex (mk_fstate m n tr h' (set_nth tid th' (f_threads s))).
Proof.
  intros HM Hth Hh Hin Hout. pose proof (nth_error_lt _ _ _ Hth) as Lt.
  constructor; cbn [FineGrained.f_holder FineGrained.f_threads].
  - intros t2 Ht2. destruct (in_cs (ft_pc th')) eqn:C.
    + destruct (Hin eq_refl) as [Hh' _]. rewrite Hh' in Ht2. inversion Ht2; subst t2.
      exists th'. split; [apply nth_error_set_nth_eq; exact Lt | exact C].
    + rewrite (Hout eq_refl) in Ht2. discriminate.
  - intros t2 th2 Hn C. destruct (Nat.eq_dec tid t2) as [Q|N].
    + subst t2. rewrite nth_error_set_nth_eq in Hn by exact Lt. inversion Hn; subst th2. apply Hin. exact C.
    + rewrite nth_error_set_nth_neq in Hn by exact N.
      destruct (mx_inside _ HM _ _ Hn C) as [Hh2 _].
      destruct Hh as [Hh|Hh]; rewrite Hh in Hh2; [discriminate|]. inversion Hh2. congruence.
Qed.

(* ---- "the thread inside has executed a prefix of with_try_get": what is still pending, with the log *)
Definition pend_tr (p : pc I E R) (m : lmemo I) (n : nat) (tr : list cevent) (t : type_id) (a : args) (cb : cb_id)
  : lmemo I * nat * result R E * list cevent :=
  let '(m2, n2, r, evs) := pending p m n t a cb in (m2, n2, r, evs ++ tr).

(* micro-steps a thread at pc p still has to make, at most, until it has released the mutex *)
Definition steps_left (p : pc I E R) : nat :=
  match p with
  | PIdle => 0 | PLocked => 6 | PCache => 5 | PMiss => 4 | PBuilt _ => 3 | PEntry _ => 2 | PRet _ => 1
  end.

(* a micro-step inside the critical section does part of the pending work and leaves the rest pending *)
Lemma inner_step_pending (p : pc I E R) m n tr t a cb m' n' tr' p' :
  in_cs p = true -> (forall r, p <> PRet r) -> inner_step p m n tr t a cb = (m', n', tr', p') ->
  in_cs p' = true /\ steps_left p' < steps_left p /\
  pend_tr p' m' n' tr' t a cb = pend_tr p m n tr t a cb.
Proof.
  intros Hc Hr EI. destruct p as [| | | |val|e|r]; cbn [FineGrained.inner_step] in EI.
  - discriminate Hc.
  - inversion EI; subst. split; [reflexivity|]. split; [cbn; lia|reflexivity].
  - destruct (tfind I (t, a) (lm_table I m)) as [e|] eqn:F; inversion EI; subst;
      (split; [reflexivity|]); (split; [cbn; lia|]);
      unfold pend_tr, FineGrained.pending, Memoizer.with_try_get; rewrite F; reflexivity.
  - destruct (construct (lm_lang I m) t a n) as [val|er] eqn:C; inversion EI; subst;
      (split; [reflexivity|]); (split; [cbn; lia|]);
      unfold pend_tr, FineGrained.pending; rewrite C; reflexivity.
  - inversion EI; subst. split; [reflexivity|]. split; [cbn; lia|reflexivity].
  - inversion EI; subst. split; [reflexivity|]. split; [cbn; lia|reflexivity].
  - exfalso. eapply Hr. reflexivity.
Qed.

(* ---- the four things a scheduling can be: no-op, Lock, a step inside, Unlock *)
Lemma fine_step_cases (s : fstate) tid :
  (fine_step s tid = s /\ lock_succeeds s tid = false /\
   forall th, nth_error (f_threads s) tid = Some th -> ft_prog th = [] \/ (ft_pc th = PIdle /\ f_holder s <> None))
  \/ (exists th t a cb rest,
        nth_error (f_threads s) tid = Some th /\ ft_prog th = (t, a, cb) :: rest /\ ft_pc th = PIdle /\
        f_holder s = None /\ lock_succeeds s tid = true /\
        fine_step s tid = mk_fstate (f_memo s) (f_counter s) (f_trace s) (Some tid)
                            (set_nth tid (mk_fthread ((t, a, cb) :: rest) PLocked (ft_results th)) (f_threads s)))
  \/ (exists th t a cb rest m' n' tr' p',
        nth_error (f_threads s) tid = Some th /\ ft_prog th = (t, a, cb) :: rest /\ in_cs (ft_pc th) = true /\
        lock_succeeds s tid = false /\ in_cs p' = true /\ steps_left p' < steps_left (ft_pc th) /\
        pend_tr p' m' n' tr' t a cb = pend_tr (ft_pc th) (f_memo s) (f_counter s) (f_trace s) t a cb /\
        fine_step s tid = mk_fstate m' n' tr' (f_holder s)
                            (set_nth tid (mk_fthread ((t, a, cb) :: rest) p' (ft_results th)) (f_threads s)))
  \/ (exists th rq rest r,
        nth_error (f_threads s) tid = Some th /\ ft_prog th = rq :: rest /\ ft_pc th = PRet r /\
        lock_succeeds s tid = false /\
        fine_step s tid = mk_fstate (f_memo s) (f_counter s) (f_trace s) None
                            (set_nth tid (mk_fthread rest PIdle (ft_results th ++ [(rq, r)])) (f_threads s))).
Proof.
  unfold FineGrained.fine_step, FineGrained.lock_succeeds.
  destruct (nth_error (f_threads s) tid) as [th|] eqn:Hth;
    [|left; split; [reflexivity|]; split; [reflexivity|]; intros th0 H0; discriminate].
  destruct (ft_prog th) as [|rq rest] eqn:EP;
    [left; split; [reflexivity|]; split; [reflexivity|]; intros th0 H0; inversion H0; subst th0; left; exact EP|].
  destruct rq as [[t a] cb].
  assert (forall (p : pc I E R), in_cs p = true -> (forall r, p <> PRet r) ->
            exists m' n' tr' p', inner_step p (f_memo s) (f_counter s) (f_trace s) t a cb = (m', n', tr', p') /\
              in_cs p' = true /\ steps_left p' < steps_left p /\
              pend_tr p' m' n' tr' t a cb = pend_tr p (f_memo s) (f_counter s) (f_trace s) t a cb) as Hin.
  { intros p Hc Hr.
    destruct (inner_step p (f_memo s) (f_counter s) (f_trace s) t a cb) as [[[m' n'] tr'] p'] eqn:EI.
    exists m', n', tr', p'. split; [reflexivity|]. eapply inner_step_pending; eauto. }
  destruct (ft_pc th) as [| | | |val|e|r] eqn:EPC.
  - destruct (f_holder s) as [h|] eqn:EH.
    { left. split; [reflexivity|]. split; [reflexivity|]. intros th0 H0. inversion H0; subst th0.
      right. split; [exact EPC|discriminate]. }
    right; left. exists th, t, a, cb, rest. repeat split; auto.
  - destruct (Hin PLocked eq_refl ltac:(intros; discriminate)) as [m' [n' [tr' [p' [EI [Hc [Hlt HP]]]]]]].
    right; right; left. exists th, t, a, cb, rest, m', n', tr', p'. rewrite EPC, EI. repeat split; auto.
  - destruct (Hin PCache eq_refl ltac:(intros; discriminate)) as [m' [n' [tr' [p' [EI [Hc [Hlt HP]]]]]]].
    right; right; left. exists th, t, a, cb, rest, m', n', tr', p'. rewrite EPC, EI. repeat split; auto.
  - destruct (Hin PMiss eq_refl ltac:(intros; discriminate)) as [m' [n' [tr' [p' [EI [Hc [Hlt HP]]]]]]].
    right; right; left. exists th, t, a, cb, rest, m', n', tr', p'. rewrite EPC, EI. repeat split; auto.
  - destruct (Hin (PBuilt val) eq_refl ltac:(intros; discriminate)) as [m' [n' [tr' [p' [EI [Hc [Hlt HP]]]]]]].
    right; right; left. exists th, t, a, cb, rest, m', n', tr', p'. rewrite EPC, EI. repeat split; auto.
  - destruct (Hin (PEntry e) eq_refl ltac:(intros; discriminate)) as [m' [n' [tr' [p' [EI [Hc [Hlt HP]]]]]]].
    right; right; left. exists th, t, a, cb, rest, m', n', tr', p'. rewrite EPC, EI. repeat split; auto.
  - right; right; right. exists th, (t, a, cb), rest, r. repeat split; auto.
Qed.

(* ---- mutual exclusion is preserved by every scheduling *)
Lemma fine_step_mutex (s : fstate) tid : Mutex s -> Mutex (fine_step s tid).
Proof.
  intros HM.
  destruct (fine_step_cases s tid) as
    [[Es _] | [[th [t [a [cb [rest [Hth [EP [EPC [EH [_ Es]]]]]]]]]]
            | [[th [t [a [cb [rest [m' [n' [tr' [p' [Hth [EP [Hc [_ [Hc' [_ [_ Es]]]]]]]]]]]]]]]]
            | [th [rq [rest [r [Hth [EP [EPC [_ Es]]]]]]]]]]]; rewrite Es.
  - exact HM.
  - apply (mutex_update s tid th _ _ _ _ _ HM Hth); cbn [FineGrained.ft_pc FineGrained.ft_prog FineGrained.in_cs].
    + left. exact EH.
    + intros _. split; [reflexivity|discriminate].
    + discriminate.
  - destruct (mx_inside _ HM _ _ Hth Hc) as [Hh _].
    apply (mutex_update s tid th _ _ _ _ _ HM Hth); cbn [FineGrained.ft_pc FineGrained.ft_prog].
    + right. exact Hh.
    + intros _. split; [exact Hh|discriminate].
    + rewrite Hc'. discriminate.
  - assert (in_cs (ft_pc th) = true) as Hc by (rewrite EPC; reflexivity).
    destruct (mx_inside _ HM _ _ Hth Hc) as [Hh _].
    apply (mutex_update s tid th _ _ _ _ _ HM Hth); cbn [FineGrained.ft_pc FineGrained.ft_prog FineGrained.in_cs].
    + right. exact Hh.
    + discriminate.
    + reflexivity.
Qed.

(* ---- the abstraction `f_abs` (finish the critical section in flight) is invariant under the steps inside,
        and a successful Lock is one atomic step of the coarse model *)
Lemma abs_inner (s : fstate) tid th t a cb rest m' n' tr' p' :
  f_holder s = Some tid -> nth_error (f_threads s) tid = Some th -> ft_prog th = (t, a, cb) :: rest ->
  pend_tr p' m' n' tr' t a cb = pend_tr (ft_pc th) (f_memo s) (f_counter s) (f_trace s) t a cb ->
  f_abs (mk_fstate m' n' tr' (Some tid)
           (set_nth tid (mk_fthread ((t, a, cb) :: rest) p' (ft_results th)) (f_threads s))) = f_abs s.
Proof.
  intros Hh Hth EP HP. pose proof (nth_error_lt _ _ _ Hth) as Lt.
  unfold FineGrained.f_abs.
  cbn [FineGrained.f_holder FineGrained.f_threads FineGrained.f_memo FineGrained.f_counter FineGrained.f_trace].
  rewrite Hh, Hth, EP, nth_error_set_nth_eq by exact Lt.
  cbn [FineGrained.ft_prog FineGrained.ft_pc FineGrained.ft_results].
  unfold pend_tr in HP.
  destruct (pending p' m' n' t a cb) as [[[m1 n1] r1] e1].
  destruct (pending (ft_pc th) (f_memo s) (f_counter s) t a cb) as [[[m2 n2] r2] e2].
  injection HP as Hm Hn Hr He. subst m1 n1 r1.
  unfold FineGrained.commit. cbn [FineGrained.f_trace FineGrained.f_threads].
  rewrite He, !map_set_nth, !set_nth_set_nth. reflexivity.
Qed.

Lemma fine_abs_step (s : fstate) tid : Mutex s ->
  f_abs (fine_step s tid) = if lock_succeeds s tid then sched_step (f_abs s) tid else f_abs s.
Proof.
  intros HM.
  destruct (fine_step_cases s tid) as
    [[Es [L _]] | [[th [t [a [cb [rest [Hth [EP [EPC [EH [L Es]]]]]]]]]]
            | [[th [t [a [cb [rest [m' [n' [tr' [p' [Hth [EP [Hc [L [Hc' [_ [HP Es]]]]]]]]]]]]]]]]
            | [th [rq [rest [r [Hth [EP [EPC [L Es]]]]]]]]]]]; rewrite Es, L.
  - reflexivity.
  - (* Lock: the pending work is the whole with_try_get *)
    pose proof (nth_error_lt _ _ _ Hth) as Lt.
    unfold FineGrained.f_abs at 2. rewrite EH.
    unfold FineGrained.f_abs.
    cbn [FineGrained.f_holder FineGrained.f_threads FineGrained.f_memo FineGrained.f_counter FineGrained.f_trace].
    rewrite nth_error_set_nth_eq by exact Lt.
    cbn [FineGrained.ft_prog FineGrained.ft_pc FineGrained.ft_results FineGrained.pending].
    unfold Concurrent.sched_step, FineGrained.f_proj.
    cbn [c_progs c_memo c_counter c_trace c_results].
    rewrite (map_nth_error ft_prog _ _ Hth), EP. unfold c_with_try_get.
    assert (nth tid (map ft_results (f_threads s)) [] = ft_results th) as Hres.
    { apply nth_error_nth. apply map_nth_error. exact Hth. }
    rewrite Hres.
    destruct (with_try_get (f_memo s) (f_counter s) t a cb) as [[[lm' n'] r] evs].
    unfold FineGrained.commit. cbn [FineGrained.f_trace FineGrained.f_threads].
    rewrite !map_set_nth, !set_nth_set_nth. reflexivity.
  - (* inside *)
    destruct (mx_inside _ HM _ _ Hth Hc) as [Hh _]. rewrite Hh. apply abs_inner; assumption.
  - (* Unlock: nothing is pending any more *)
    assert (in_cs (ft_pc th) = true) as Hc by (rewrite EPC; reflexivity).
    destruct (mx_inside _ HM _ _ Hth Hc) as [Hh _].
    unfold FineGrained.f_abs. cbn [FineGrained.f_holder]. rewrite Hh, Hth, EP, EPC.
    destruct rq as [[t a] cb]. cbn [FineGrained.pending].
    unfold FineGrained.commit, FineGrained.f_proj.
    cbn [FineGrained.f_trace FineGrained.f_threads FineGrained.f_memo FineGrained.f_counter app].
    rewrite !map_set_nth. reflexivity.
Qed.

(* ---- simulation along a whole fine schedule *)
Lemma fine_sim fs : forall (s : fstate), Mutex s ->
  Mutex (fine_run_from s fs) /\
  f_abs (fine_run_from s fs) = fold_left sched_step (lock_order s fs) (f_abs s).
Proof.
  unfold FineGrained.fine_run_from.
  induction fs as [|tid fs IH]; intros s HM; cbn [fold_left FineGrained.lock_order].
  - split; [exact HM|reflexivity].
  - pose proof (fine_step_mutex s tid HM) as HM1. pose proof (fine_abs_step s tid HM) as HA.
    destruct (IH _ HM1) as [HM2 HA2]. split; [exact HM2|]. rewrite HA2, HA.
    destruct (lock_succeeds s tid); reflexivity.
Qed.

Lemma abs_init l threads : f_abs (f_init l threads) = c_init I E R l threads.
Proof.
  unfold FineGrained.f_abs, FineGrained.f_init, FineGrained.f_proj, c_init.
  cbn [FineGrained.f_holder FineGrained.f_threads FineGrained.f_memo FineGrained.f_counter FineGrained.f_trace].
  rewrite !map_map. cbn [FineGrained.ft_prog FineGrained.ft_results]. rewrite map_id. reflexivity.
Qed.

(* mutual exclusion holds in every reachable state of every fine schedule *)
Theorem fine_mutex l threads fs : Mutex (fine_run l threads fs).
Proof. exact (proj1 (fine_sim fs _ (mutex_init l threads))). Qed.

(* THE REDUCTION THEOREM, strongest form: at EVERY point of EVERY fine schedule, the state in which the thread
   inside the critical section (if any) has finished it is the state of the coarse model under the lock order *)
Theorem fine_reduction_abs l threads fs :
  f_abs (fine_run l threads fs) = run_schedule l threads (lock_order (f_init l threads) fs).
Proof.
  unfold FineGrained.fine_run, Concurrent.run_schedule.
  rewrite (proj2 (fine_sim fs _ (mutex_init l threads))), abs_init. reflexivity.
Qed.

(* ... hence whenever no thread is inside a critical section the observable state IS the coarse state *)
Theorem fine_reduction l threads fs :
  f_holder (fine_run l threads fs) = None ->
  f_proj (fine_run l threads fs) = run_schedule l threads (lock_order (f_init l threads) fs).
Proof.
  intros Hh. rewrite <- fine_reduction_abs. unfold FineGrained.f_abs. rewrite Hh. reflexivity.
Qed.

Lemma finished_holder (s : fstate) : Mutex s -> f_finished s = true -> f_holder s = None.
Proof.
  intros HM Hf. destruct (f_holder s) as [tid|] eqn:EH; [|reflexivity]. exfalso.
  destruct (mx_holder _ HM _ EH) as [th [Hth Hc]]. destruct (mx_inside _ HM _ _ Hth Hc) as [_ Hp].
  unfold FineGrained.f_finished in Hf. rewrite forallb_forall in Hf.
  apply nth_error_In in Hth. apply Hf in Hth. destruct (ft_prog th); [apply Hp; reflexivity|discriminate].
Qed.

Lemma finished_proj (s : fstate) : finished I E R (f_proj s) = f_finished s.
Proof. unfold finished, FineGrained.f_finished, FineGrained.f_proj. cbn [c_progs]. apply forallb_map. Qed.

(* ... in particular when all threads have finished *)
Theorem fine_reduction_finished l threads fs :
  f_finished (fine_run l threads fs) = true ->
  f_holder (fine_run l threads fs) = None /\
  f_proj (fine_run l threads fs) = run_schedule l threads (lock_order (f_init l threads) fs) /\
  finished I E R (run_schedule l threads (lock_order (f_init l threads) fs)) = true.
Proof.
  intros Hf. pose proof (finished_holder _ (fine_mutex l threads fs) Hf) as Hh.
  pose proof (fine_reduction l threads fs Hh) as HR. split; [exact Hh|]. split; [exact HR|].
  rewrite <- HR, finished_proj. exact Hf.
Qed.

(* ---- corollaries: the coarse theorems under every fine schedule *)

(* the log of a fine state is a suffix of the log of its abstraction (the event in flight is the only difference) *)
Lemma abs_trace (s : fstate) : exists evs, c_trace I E R (f_abs s) = evs ++ f_trace s.
Proof.
  unfold FineGrained.f_abs. destruct (f_holder s) as [tid|]; [|exists []; reflexivity].
  destruct (nth_error (f_threads s) tid) as [th|]; [|exists []; reflexivity].
  destruct (ft_prog th) as [|[[t a] cb] rest]; [exists []; reflexivity|].
  destruct (pending (ft_pc th) (f_memo s) (f_counter s) t a cb) as [[[m2 n2] r2] e2].
  exists e2. reflexivity.
Qed.

(* once-only at EVERY point of EVERY fine schedule (also while a thread is inside the critical section) *)
Theorem fine_once l threads fs k :
  length (filter (c_is_succ k) (f_trace (fine_run l threads fs))) <= 1.
Proof.
  destruct (abs_trace (fine_run l threads fs)) as [evs Ht].
  pose proof (sched_once I E R construct callback l threads (lock_order (f_init l threads) fs) k) as L.
  rewrite <- fine_reduction_abs, Ht in L.
  pose proof (filter_app_length_le (c_is_succ k) evs (f_trace (fine_run l threads fs))). lia.
Qed.

(* the results of a fine run at a quiescent point are those of the induced sequential program *)
Theorem fine_refines l threads fs :
  let s := fine_run l threads fs in
  let lin := linearize threads (lock_order (f_init l threads) fs) in
  f_holder s = None ->
  exists rs,
    outputs I E R construct callback (init I) (seq_program l lin) = OutMemo 0 :: map OutRes rs /\
    length rs = length lin /\
    Rel I E R (f_proj s) (exec I E R construct callback (init I) (seq_program l lin)) /\
    (forall tid, tid < length threads -> nth tid (map ft_results (f_threads s)) [] = pick E R tid (combine lin rs)) /\
    (forall tid, tid < length threads ->
       map fst (nth tid (map ft_results (f_threads s)) []) ++ nth tid (map ft_prog (f_threads s)) [] = nth tid threads []).
Proof.
  intros s lin Hh. pose proof (fine_reduction l threads fs Hh) as HR. fold s in HR.
  change (map ft_results (f_threads s)) with (c_results I E R (f_proj s)).
  change (map ft_prog (f_threads s)) with (c_progs I E R (f_proj s)).
  rewrite HR. exact (sched_refines I E R construct callback l threads (lock_order (f_init l threads) fs)).
Qed.

Theorem fine_complete l threads fs tid :
  f_finished (fine_run l threads fs) = true -> tid < length threads ->
  map fst (nth tid (map ft_results (f_threads (fine_run l threads fs))) []) = nth tid threads [].
Proof.
  intros Hf Lt. destruct (fine_reduction_finished l threads fs Hf) as [_ [HR HF]].
  change (map ft_results (f_threads (fine_run l threads fs))) with (c_results I E R (f_proj (fine_run l threads fs))).
  rewrite HR. apply (sched_complete I E R construct callback); assumption.
Qed.

(* every successful result a thread holds at a quiescent point is the callback applied to THE instance *)
Theorem fine_same_inst l threads fs tid t a cb r :
  let s := fine_run l threads fs in
  f_holder s = None -> tid < length threads ->
  In ((t, a, cb), Ok r) (nth tid (map ft_results (f_threads s)) []) ->
  exists e i, filter (c_is_succ (t, a)) (f_trace s) = [e] /\
              ev_lang e = l /\ construct l t a (ev_n e) = Ok i /\ r = callback cb i.
Proof.
  intros s Hh Lt Hin. pose proof (fine_reduction l threads fs Hh) as HR. fold s in HR.
  change (map ft_results (f_threads s)) with (c_results I E R (f_proj s)) in Hin.
  change (f_trace s) with (c_trace I E R (f_proj s)).
  rewrite HR in Hin |- *. eapply (sched_same_inst I E R construct callback); eauto.
Qed.

Theorem fine_err l threads fs tid t a cb er :
  let s := fine_run l threads fs in
  f_holder s = None -> tid < length threads ->
  In ((t, a, cb), Err er) (nth tid (map ft_results (f_threads s)) []) ->
  exists e, In e (f_trace s) /\ ev_key e = (t, a) /\ ev_ok e = false /\ construct l t a (ev_n e) = Err er.
Proof.
  intros s Hh Lt Hin. pose proof (fine_reduction l threads fs Hh) as HR. fold s in HR.
  change (map ft_results (f_threads s)) with (c_results I E R (f_proj s)) in Hin.
  change (f_trace s) with (c_trace I E R (f_proj s)).
  rewrite HR in Hin |- *. eapply (sched_err I E R construct callback); eauto.
Qed.

(* ---- the micro-steps of ONE request, run without interference, compose to with_try_get *)

(* a thread inside the critical section, scheduled alone, leaves it within steps_left micro-steps, and the
   abstraction does not move meanwhile *)
Lemma fine_drain n : forall (s : fstate) tid th, Mutex s ->
  nth_error (f_threads s) tid = Some th -> in_cs (ft_pc th) = true -> steps_left (ft_pc th) <= n ->
  exists j, j <= n /\ f_holder (fine_run_from s (repeat tid j)) = None /\
            lock_order s (repeat tid j) = [] /\
            f_abs (fine_run_from s (repeat tid j)) = f_abs s.
Proof.
  induction n as [|n IH]; intros s tid th HM Hth Hc Hn.
  - destruct (ft_pc th); cbn in Hc, Hn; try discriminate; lia.
  - pose proof (fine_abs_step s tid HM) as HA. pose proof (fine_step_mutex s tid HM) as HM1.
    destruct (fine_step_cases s tid) as
      [[_ [_ Hno]] | [[th1 [t [a [cb [rest [Hth1 [_ [EPC _]]]]]]]]
              | [[th1 [t [a [cb [rest [m' [n' [tr' [p' [Hth1 [EP [_ [L [Hc' [Hlt [_ Es]]]]]]]]]]]]]]]]
              | [th1 [rq [rest [r [Hth1 [EP [EPC [L Es]]]]]]]]]]].
    + exfalso. destruct (Hno _ Hth) as [Hp|[Hp _]].
      * destruct (mx_inside _ HM _ _ Hth Hc) as [_ Hne]. contradiction.
      * rewrite Hp in Hc. discriminate.
    + exfalso. rewrite Hth in Hth1. inversion Hth1; subst th1. rewrite EPC in Hc. discriminate.
    + rewrite Hth in Hth1. inversion Hth1; subst th1. rewrite L in HA.
      assert (nth_error (f_threads (fine_step s tid)) tid =
              Some (mk_fthread ((t, a, cb) :: rest) p' (ft_results th))) as Hth'.
      { rewrite Es. cbn [FineGrained.f_threads]. apply nth_error_set_nth_eq. eapply nth_error_lt; eauto. }
      destruct (IH (fine_step s tid) tid _ HM1 Hth') as [j [Lj [Hh [Hlo Habs]]]];
        cbn [FineGrained.ft_pc]; [exact Hc'|lia|].
      exists (S j). split; [lia|]. cbn [repeat FineGrained.lock_order]. rewrite L.
      unfold FineGrained.fine_run_from in *. cbn [fold_left].
      split; [exact Hh|]. split; [exact Hlo|]. rewrite Habs. exact HA.
    + rewrite L in HA. exists 1. split; [lia|]. cbn [repeat FineGrained.lock_order]. rewrite L.
      unfold FineGrained.fine_run_from. cbn [fold_left].
      split; [rewrite Es; reflexivity|]. split; [reflexivity|exact HA].
Qed.

(* from a state where the mutex is free, a thread with a request, scheduled alone, is back outside after at
   most 7 micro-steps (Lock .. Unlock), exactly one Lock has succeeded, and the observable effect is the one
   atomic step of the coarse model, i.e. concurrent.rs/lib.rs with_try_get on the map *)
Theorem fine_request_is_with_try_get (s : fstate) tid th rq rest : Mutex s -> f_holder s = None ->
  nth_error (f_threads s) tid = Some th -> ft_prog th = rq :: rest ->
  exists k, 1 <= k <= 7 /\ f_holder (fine_run_from s (repeat tid k)) = None /\
            lock_order s (repeat tid k) = [tid] /\
            f_proj (fine_run_from s (repeat tid k)) = sched_step (f_proj s) tid.
Proof.
  intros HM Hh Hth EP.
  pose proof (fine_abs_step s tid HM) as HA. pose proof (fine_step_mutex s tid HM) as HM1.
  assert (f_abs s = f_proj s) as Habs0 by (unfold FineGrained.f_abs; rewrite Hh; reflexivity).
  destruct (fine_step_cases s tid) as
    [[_ [_ Hno]] | [[th1 [t [a [cb [rest1 [Hth1 [EP1 [EPC [_ [L Es]]]]]]]]]]
            | [[th1 [t [a [cb [rest1 [m' [n' [tr' [p' [Hth1 [_ [Hc _]]]]]]]]]]]]
            | [th1 [rq1 [rest1 [r [Hth1 [_ [EPC _]]]]]]]]]].
  - exfalso. destruct (Hno _ Hth) as [Hp|[_ Hp]]; [congruence|contradiction].
  - rewrite Hth in Hth1. inversion Hth1; subst th1. rewrite L in HA.
    assert (nth_error (f_threads (fine_step s tid)) tid =
            Some (mk_fthread ((t, a, cb) :: rest1) PLocked (ft_results th))) as Hth'.
    { rewrite Es. cbn [FineGrained.f_threads]. apply nth_error_set_nth_eq. eapply nth_error_lt; eauto. }
    destruct (fine_drain 6 (fine_step s tid) tid _ HM1 Hth') as [j [Lj [Hh' [Hlo Habs]]]];
      cbn [FineGrained.ft_pc]; [reflexivity|cbn; lia|].
    exists (S j). split; [lia|]. cbn [repeat FineGrained.lock_order]. rewrite L, Hlo.
    unfold FineGrained.fine_run_from in *. cbn [fold_left].
    split; [exact Hh'|]. split; [reflexivity|].
    rewrite <- Habs0, <- HA, <- Habs. unfold FineGrained.f_abs. rewrite Hh'. reflexivity.
  - exfalso. rewrite Hth in Hth1. inversion Hth1; subst th1.
    destruct (mx_inside _ HM _ _ Hth Hc) as [Hh2 _]. congruence.
  - exfalso. rewrite Hth in Hth1. inversion Hth1; subst th1.
    assert (in_cs (ft_pc th) = true) as Hc by (rewrite EPC; reflexivity).
    destruct (mx_inside _ HM _ _ Hth Hc) as [Hh2 _]. congruence.
Qed.

(* ---- converse: the fine model loses no behaviour of the coarse one — every coarse schedule is the lock order of
        some fine schedule (run each request alone), with the same observable state *)
Lemma fine_realizes_from cs : forall (s : fstate), Mutex s -> f_holder s = None ->
  exists fs, f_holder (fine_run_from s fs) = None /\
             f_proj (fine_run_from s fs) = fold_left sched_step cs (f_proj s).
Proof.
  induction cs as [|tid cs IH]; intros s HM Hh.
  - exists []. split; [exact Hh|reflexivity].
  - cbn [fold_left].
    assert (forall p, nth_error (map ft_prog (f_threads s)) tid = p -> (p = None \/ p = Some []) ->
              sched_step (f_proj s) tid = f_proj s) as Hnop.
    { intros p Hp Hc. unfold Concurrent.sched_step, FineGrained.f_proj. cbn [c_progs]. rewrite Hp.
      destruct Hc as [Hc|Hc]; rewrite Hc; reflexivity. }
    destruct (nth_error (f_threads s) tid) as [th|] eqn:Hth.
    + destruct (ft_prog th) as [|rq rest] eqn:EP.
      * rewrite (Hnop (Some [])); [apply IH; assumption| |right; reflexivity].
        rewrite (map_nth_error ft_prog _ _ Hth), EP. reflexivity.
      * destruct (fine_request_is_with_try_get s tid th rq rest HM Hh Hth EP) as [k [_ [Hh1 [_ HP]]]].
        destruct (IH (fine_run_from s (repeat tid k)) (proj1 (fine_sim _ s HM)) Hh1) as [fs' [Hh2 HP2]].
        exists (repeat tid k ++ fs'). unfold FineGrained.fine_run_from in *. rewrite fold_left_app.
        split; [exact Hh2|]. rewrite HP2, HP. reflexivity.
    + rewrite (Hnop None); [apply IH; assumption| |left; reflexivity].
      apply nth_error_None. rewrite map_length. apply nth_error_None. exact Hth.
Qed.

Theorem fine_realizes l threads cs :
  exists fs, f_holder (fine_run l threads fs) = None /\
             f_proj (fine_run l threads fs) = run_schedule l threads cs.
Proof.
  destruct (fine_realizes_from cs (f_init l threads) (mutex_init l threads) eq_refl) as [fs [Hh HP]].
  exists fs. split; [exact Hh|]. unfold FineGrained.fine_run, Concurrent.run_schedule. rewrite HP.
  rewrite <- abs_init. reflexivity.
Qed.

End FineProofs.

(* ------------------------------------------------------------------ sensitivity: check-then-act is refuted

   Two threads ask for the same key; constructor and callback are as simple as can be (instance = the number of
   the construct call, callback = identity).  In the BROKEN variant (lock released between lookup and
   construct/insert, FineGrained.v `broken_step`) the schedule below lets both threads miss, both construct,
   both insert: the key is constructed successfully TWICE and the two threads' callbacks run against DIFFERENT
   instances — both excluded for the real locking discipline by fine_once / fine_same_inst above, for every
   schedule.  So those theorems do depend on the critical section covering lookup..insert.                  *)
Definition bx_construct (l : lang) (t : type_id) (a : args) (n : nat) : result nat unit := Ok n.
Definition bx_callback (cb : cb_id) (i : nat) : nat := i.
Definition bx_threads : list (list request) := [[(0, [], 7)]; [(0, [], 8)]].
(*                 T0: Lock LookupType LookupArgs(miss) Unlock | T1: the same | T0: Construct | T1: Construct |
                   T0: Lock Insert Callback Unlock             | T1: the same                               *)
Definition bx_schedule : list nat := [0; 0; 0; 0; 1; 1; 1; 1; 0; 1; 0; 0; 0; 0; 1; 1; 1; 1].

Theorem fine_broken_constructs_twice :
  exists threads fs,
    let s := broken_run nat unit nat bx_construct bx_callback [] threads fs in
    b_finished nat unit nat s = true /\ b_holder nat unit nat s = None /\
    length (filter (c_is_succ (0, [])) (b_trace nat unit nat s)) = 2 /\
    map (bt_results nat unit nat) (b_threads nat unit nat s) = [[((0, [], 7), Ok 0)]; [((0, [], 8), Ok 1)]].
Proof. exists bx_threads, bx_schedule. vm_compute. repeat split. Qed.

(* the same threads under the same schedule in the real discipline: one construction, one instance *)
Example fine_same_schedule_constructs_once :
  let s := fine_run nat unit nat bx_construct bx_callback [] bx_threads (bx_schedule ++ [1; 1; 1; 1]) in
  f_finished nat unit nat s = true /\
  length (filter (c_is_succ (0, [])) (f_trace nat unit nat s)) = 1 /\
  map (ft_results nat unit nat) (f_threads nat unit nat s) = [[((0, [], 7), Ok 0)]; [((0, [], 8), Ok 0)]] /\
  lock_order nat unit nat bx_construct bx_callback (f_init nat unit nat [] bx_threads) (bx_schedule ++ [1; 1; 1; 1]) = [0; 1].
Proof. vm_compute. repeat split. Qed.

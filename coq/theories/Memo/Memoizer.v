(* Memo/Memoizer.v — model of intl-memoizer/src/lib.rs (IntlLangMemoizer, IntlMemoizer) and of the
   MemoizerKind impls of fluent-bundle (bundle.rs / concurrent.rs: `with_try_get_threadsafe` is a plain
   forward to `with_try_get`).  Definitions only.

   A formatter type is a `type_id`, its `Args` a byte string; the pair is the `key`.  The real state is a
   TypeMap (type -> HashMap<Args, I>); the model flattens it to one association (type, args) -> instance
   (the empty inner HashMap that `entry().or_insert_with(HashMap::new)` leaves behind for a type whose
   only construction failed holds no instance and is not observable through the API).

   External code is a Section variable: `construct` (Memoizable::construct; its last argument is the
   global number of construct calls made so far, so two constructions never have to return the same
   instance and a constructor may fail first and succeed later) and `callback` (the FnOnce(&I) -> R
   passed to with_try_get, named by a `cb_id`).  Both are arbitrary pure total functions: a callback
   that re-enters the memoizer (`try_borrow_mut().expect("Cannot use memoizer reentrantly")` panics in
   lib.rs, `lock()` self-deadlocks in concurrent.rs) and a constructor that panics (mutex poisoning:
   `lock().unwrap()`) are runtime behaviour this model cannot exhibit — see PARTIAL in props/C14.py.

   `w_trace` is ghost state: the log of construct calls (memoizer id, arguments actually passed,
   counter value, success), newest first.  The theorems of Props/C14.v are stated over it.            *)
From FluentV Require Export Base.Bytes Base.Outcome.

Definition lang := bytes.
Definition type_id := nat.
Definition args := bytes.
Definition cb_id := nat.
Definition key := (type_id * args)%type.

Inductive result (X Y : Type) : Type := Ok (x : X) | Err (y : Y).
Arguments Ok {X Y} x.
Arguments Err {X Y} y.

Definition key_eqb (a b : key) : bool := Nat.eqb (fst a) (fst b) && bytes_eqb (snd a) (snd b).

(* construct call log entry: the arguments construct was called with, the counter, Ok/Err *)
Record cevent := mk_cevent { ev_lang : lang; ev_type : type_id; ev_args : args; ev_n : nat; ev_ok : bool }.
Definition ev_key (e : cevent) : key := (ev_type e, ev_args e).

Fixpoint set_nth {X} (i : nat) (x : X) (l : list X) : list X :=
  match l, i with
  | [], _ => []
  | _ :: r, O => x :: r
  | y :: r, S i' => y :: set_nth i' x r
  end.

Section Memo.
Variables I E R : Type.
Variable construct : lang -> type_id -> args -> nat -> result I E.
Variable callback : cb_id -> I -> R.

(* ---------------------------------------------------------------- IntlLangMemoizer *)

Definition table := list (key * I).

(* HashMap lookup; a key is inserted only through a Vacant entry, so the first match is the only one *)
Fixpoint tfind (k : key) (tb : table) : option I :=
  match tb with
  | [] => None
  | (k', v) :: r => if key_eqb k' k then Some v else tfind k r
  end.

Record lmemo := mk_lmemo { lm_lang : lang; lm_table : table }.

(* lib.rs IntlLangMemoizer::new ; concurrent.rs IntlLangMemoizer::new *)
Definition lm_new (l : lang) : lmemo := mk_lmemo l [].

(* lib.rs IntlLangMemoizer::with_try_get  (n = construct calls made so far, returned updated)
     let mut map = self.map.try_borrow_mut().expect(..);
     let cache = map.entry::<HashMap<I::Args, I>>().or_insert_with(HashMap::new);
     let e = match cache.entry(construct_args.clone()) {
         Entry::Occupied(entry) => entry.into_mut(),
         Entry::Vacant(entry) => { let val = I::construct(self.lang.clone(), construct_args)?; entry.insert(val) } };
     Ok(callback(e))                                                                              *)
Definition with_try_get (m : lmemo) (n : nat) (t : type_id) (a : args) (cb : cb_id)
  : lmemo * nat * result R E * list cevent :=
  let cache := lm_table m in
  match tfind (t, a) cache with
  | Some e => (m, n, Ok (callback cb e), [])
  | None =>
      match construct (lm_lang m) t a n with
      | Err er => (m, S n, Err er, [mk_cevent (lm_lang m) t a n false])
      | Ok val =>
          (mk_lmemo (lm_lang m) (((t, a), val) :: cache), S n, Ok (callback cb val),
           [mk_cevent (lm_lang m) t a n true])
      end
  end.

(* bundle.rs / concurrent.rs MemoizerKind::with_try_get_threadsafe: `self.with_try_get(args, cb)` *)
Definition with_try_get_threadsafe := with_try_get.

(* ---------------------------------------------------------------- IntlMemoizer + the client's handles *)

(* Rc<IntlLangMemoizer> allocations are numbered in allocation order and never reused in the model; a
   Weak is the number; the strong count of an allocation is the number of live client handles on it
   (every Rc the API hands out goes to the client).  An allocation without live handle is freed in
   Rust; in the model it merely becomes unreachable (upgrade fails for ever).                      *)
Record world := mk_world {
  w_counter : nat;                    (* construct calls so far (all memoizers) *)
  w_trace : list (nat * cevent);      (* ghost: construct log, newest first, with the memoizer's id *)
  w_next : nat;                       (* next allocation id *)
  w_heap : list (nat * lmemo);        (* allocation id -> IntlLangMemoizer; first binding wins *)
  w_map : list (lang * nat);          (* IntlMemoizer.map : lang -> Weak; first binding wins *)
  w_handles : list (option nat)       (* client handles in creation order; None = dropped *)
}.

Definition init : world := mk_world 0 [] 0 [] [] [].

Fixpoint hfind (m : nat) (h : list (nat * lmemo)) : option lmemo :=
  match h with
  | [] => None
  | (m', x) :: r => if Nat.eqb m' m then Some x else hfind m r
  end.

Fixpoint lfind (l : lang) (mp : list (lang * nat)) : option nat :=
  match mp with
  | [] => None
  | (l', x) :: r => if bytes_eqb l' l then Some x else lfind l r
  end.

Definition points_to (m : nat) (o : option nat) : bool :=
  match o with Some m' => Nat.eqb m' m | None => false end.

(* Rc::strong_count > 0 *)
Definition live (m : nat) (hs : list (option nat)) : bool := existsb (points_to m) hs.

(* Weak::upgrade *)
Definition upgrade (w : world) (wk : nat) : option nat :=
  if live wk (w_handles w) then Some wk else None.

(* Rc::new(IntlLangMemoizer::new(lang)) followed by map insert of its downgrade *)
Definition alloc_insert (w : world) (l : lang) : world * nat :=
  let m := w_next w in
  (mk_world (w_counter w) (w_trace w) (S m) ((m, lm_new l) :: w_heap w) ((l, m) :: w_map w) (w_handles w), m).

(* lib.rs IntlMemoizer::get_for_lang *)
Definition get_for_lang (w : world) (l : lang) : world * nat :=
  match lfind l (w_map w) with
  | None => alloc_insert w l                      (* Entry::Vacant *)
  | Some wk =>                                    (* Entry::Occupied *)
      match upgrade w wk with
      | Some m => (w, m)
      | None => alloc_insert w l
      end
  end.

Inductive op :=
| OpGet (l : lang)                                      (* h_new = memoizer.get_for_lang(l) *)
| OpDrop (h : nat)                                      (* drop(h) *)
| OpWith (h : nat) (t : type_id) (a : args) (cb : cb_id). (* h.with_try_get::<t>(a, cb) *)

Inductive output :=
| OutMemo (m : nat)            (* allocation the new handle points to (Rc::ptr_eq classes) *)
| OutDrop
| OutRes (r : result R E)
| OutDead.                     (* the handle does not exist or was dropped: not a program *)

Definition handle (w : world) (h : nat) : option nat :=
  match nth_error (w_handles w) h with
  | Some (Some m) => Some m
  | _ => None
  end.

Definition step (w : world) (o : op) : world * output :=
  match o with
  | OpGet l =>
      let '(w1, m) := get_for_lang w l in
      (mk_world (w_counter w1) (w_trace w1) (w_next w1) (w_heap w1) (w_map w1) (w_handles w1 ++ [Some m]),
       OutMemo m)
  | OpDrop h =>
      match handle w h with
      | Some _ =>
          (mk_world (w_counter w) (w_trace w) (w_next w) (w_heap w) (w_map w) (set_nth h None (w_handles w)),
           OutDrop)
      | None => (w, OutDead)
      end
  | OpWith h t a cb =>
      match handle w h with
      | Some m =>
          match hfind m (w_heap w) with
          | Some lm =>
              let '(lm', n', r, evs) := with_try_get lm (w_counter w) t a cb in
              (mk_world n' (map (pair m) evs ++ w_trace w) (w_next w) ((m, lm') :: w_heap w) (w_map w)
                        (w_handles w),
               OutRes r)
          | None => (w, OutDead)
          end
      | None => (w, OutDead)
      end
  end.

Fixpoint run (w : world) (ops : list op) : list output * world :=
  match ops with
  | [] => ([], w)
  | o :: r => let '(w1, out) := step w o in let '(outs, w2) := run w1 r in (out :: outs, w2)
  end.

Definition exec (w : world) (ops : list op) : world := snd (run w ops).
Definition outputs (w : world) (ops : list op) : list output := fst (run w ops).

(* ---------------------------------------------------------------- vocabulary of the theorems *)

(* successful constructions of key k by memoizer m in a trace *)
Definition is_succ (m : nat) (k : key) (me : nat * cevent) : bool :=
  Nat.eqb (fst me) m && key_eqb (ev_key (snd me)) k && ev_ok (snd me).
Definition succs (m : nat) (k : key) (tr : list (nat * cevent)) : list (nat * cevent) :=
  filter (is_succ m k) tr.

(* language of allocation m *)
Definition memo_lang (w : world) (m : nat) : option lang :=
  match hfind m (w_heap w) with Some lm => Some (lm_lang lm) | None => None end.

(* cached instance of key k in allocation m *)
Definition cached (w : world) (m : nat) (k : key) : option I :=
  match hfind m (w_heap w) with Some lm => tfind k (lm_table lm) | None => None end.

End Memo.

Arguments OutMemo {E R} m.
Arguments OutDrop {E R}.
Arguments OutRes {E R} r.
Arguments OutDead {E R}.

(* Memo/MemoProofs.v — proofs about Memo/Memoizer.v and Memo/Concurrent.v (property C14). *)
From FluentV Require Import Base.Bytes Base.BytesFacts Base.Outcome Memo.Memoizer Memo.Concurrent.
From Coq Require Import Lia Arith PeanoNat.

(* ------------------------------------------------------------------ generic list facts *)

Lemma key_eqb_eq (a b : key) : key_eqb a b = true <-> a = b.
Proof.
  destruct a as [t a], b as [t' b]. unfold key_eqb. cbn [fst snd].
  rewrite Bool.andb_true_iff, Nat.eqb_eq, bytes_eqb_eq. split.
  - intros [-> ->]. reflexivity.
  - intros H. inversion H. auto.
Qed.

Lemma key_eqb_refl (a : key) : key_eqb a a = true.
Proof. apply key_eqb_eq. reflexivity. Qed.

Lemma key_eqb_neq (a b : key) : a <> b -> key_eqb a b = false.
Proof. intros H. destruct (key_eqb a b) eqn:K; auto. apply key_eqb_eq in K. contradiction. Qed.

Lemma bytes_eqb_refl (a : bytes) : bytes_eqb a a = true.
Proof. apply bytes_eqb_eq. reflexivity. Qed.

Lemma set_nth_length {X} i (x : X) l : length (set_nth i x l) = length l.
Proof. revert i. induction l as [|y l IH]; intros [|i]; cbn; auto. Qed.

Lemma nth_error_set_nth_eq {X} i (x : X) l : i < length l -> nth_error (set_nth i x l) i = Some x.
Proof. revert i. induction l as [|y l IH]; intros [|i] H; cbn in *; try lia; auto. apply IH. lia. Qed.

Lemma nth_error_set_nth_neq {X} i j (x : X) l : i <> j -> nth_error (set_nth i x l) j = nth_error l j.
Proof.
  revert i j. induction l as [|y l IH]; intros [|i] [|j] H; cbn; auto; try congruence.
Qed.

Lemma nth_set_nth_eq {X} i (x d : X) l : i < length l -> nth i (set_nth i x l) d = x.
Proof. revert i. induction l as [|y l IH]; intros [|i] H; cbn in *; try lia; auto. apply IH. lia. Qed.

Lemma nth_set_nth_neq {X} i j (x d : X) l : i <> j -> nth j (set_nth i x l) d = nth j l d.
Proof.
  revert i j. induction l as [|y l IH]; intros [|i] [|j] H; cbn; auto; try congruence.
Qed.

Lemma set_nth_none_some i l j (m : nat) :
  nth_error (set_nth i (@None nat) l) j = Some (Some m) -> nth_error l j = Some (Some m).
Proof.
  destruct (Nat.eq_dec i j) as [->|N].
  - destruct (Nat.lt_ge_cases j (length l)) as [L|L].
    + rewrite nth_error_set_nth_eq by exact L. discriminate.
    + intros H. assert (nth_error (set_nth j None l) j = None) as H0.
      { apply nth_error_None. rewrite set_nth_length. exact L. }
      congruence.
  - rewrite nth_error_set_nth_neq by exact N. auto.
Qed.

Lemma live_of_handle hs h m : nth_error hs h = Some (Some m) -> live m hs = true.
Proof.
  intros H. unfold live. apply existsb_exists. exists (Some m). split.
  - eapply nth_error_In; eauto.
  - cbn. apply Nat.eqb_refl.
Qed.

Lemma live_true_ex hs m : live m hs = true -> exists h, nth_error hs h = Some (Some m).
Proof.
  unfold live. intros H. apply existsb_exists in H. destruct H as [o [Hin Hp]].
  destruct o as [m'|]; cbn in Hp; [|discriminate]. apply Nat.eqb_eq in Hp. subst m'.
  apply In_nth_error in Hin. exact Hin.
Qed.

(* ------------------------------------------------------------------ the sequential model *)

Section Proofs.
Variables I E R : Type.
Variable construct : lang -> type_id -> args -> nat -> result I E.
Variable callback : cb_id -> I -> R.

Notation world := (world I).
Notation lmemo := (lmemo I).
Notation with_try_get := (with_try_get I E R construct callback).
Notation step := (step I E R construct callback).
Notation run := (run I E R construct callback).
Notation exec := (exec I E R construct callback).
Notation outputs := (outputs I E R construct callback).
Notation init := (init I).
Notation tfind := (tfind I).
Notation hfind := (hfind I).
Notation cached := (cached I).
Notation memo_lang := (memo_lang I).
Notation handle := (handle I).

(* the three ways a with_try_get can go *)
Lemma wtg_cases (lm : lmemo) n t a cb :
  (exists i, tfind (t, a) (lm_table I lm) = Some i /\
             with_try_get lm n t a cb = (lm, n, Ok (callback cb i), []))
  \/ (tfind (t, a) (lm_table I lm) = None /\ exists er, construct (lm_lang I lm) t a n = Err er /\
             with_try_get lm n t a cb = (lm, S n, Err er, [mk_cevent (lm_lang I lm) t a n false]))
  \/ (tfind (t, a) (lm_table I lm) = None /\ exists i, construct (lm_lang I lm) t a n = Ok i /\
             with_try_get lm n t a cb =
               (mk_lmemo I (lm_lang I lm) (((t, a), i) :: lm_table I lm), S n, Ok (callback cb i),
                [mk_cevent (lm_lang I lm) t a n true])).
Proof.
  unfold Memoizer.with_try_get. destruct (tfind (t, a) (lm_table I lm)) as [i|] eqn:F.
  - left. eauto.
  - right. destruct (construct (lm_lang I lm) t a n) as [i|er] eqn:C.
    + right. split; auto. exists i. auto.
    + left. split; auto. exists er. auto.
Qed.

Lemma hfind_cons_same m (lm : lmemo) hp m' : hfind m hp = Some lm -> hfind m' ((m, lm) :: hp) = hfind m' hp.
Proof. intros H. cbn. destruct (Nat.eqb m m') eqn:Q; auto. apply Nat.eqb_eq in Q. subst. auto. Qed.

(* ---- invariant of every reachable world *)
Record Inv (w : world) : Prop := {
  inv_heap_lt : forall m lm, hfind m (w_heap I w) = Some lm -> m < w_next I w;
  inv_heap_ex : forall m, m < w_next I w -> exists lm, hfind m (w_heap I w) = Some lm;
  inv_handles : forall h m, nth_error (w_handles I w) h = Some (Some m) -> m < w_next I w;
  inv_map : forall l m, lfind l (w_map I w) = Some m ->
              exists lm, hfind m (w_heap I w) = Some lm /\ lm_lang I lm = l;
  inv_live_map : forall h m lm, nth_error (w_handles I w) h = Some (Some m) ->
              hfind m (w_heap I w) = Some lm -> lfind (lm_lang I lm) (w_map I w) = Some m;
  inv_trace : forall m e, In (m, e) (w_trace I w) ->
              ev_n e < w_counter I w /\ exists lm, hfind m (w_heap I w) = Some lm /\ ev_lang e = lm_lang I lm;
  inv_succ : forall m lm k, hfind m (w_heap I w) = Some lm ->
              match tfind k (lm_table I lm) with
              | None => succs m k (w_trace I w) = []
              | Some i => exists e, succs m k (w_trace I w) = [(m, e)] /\
                                    construct (ev_lang e) (fst k) (snd k) (ev_n e) = Ok i
              end
}.

Lemma inv_init : Inv init.
Proof.
  constructor; cbn; intros; try discriminate; try lia; try contradiction;
    destruct h; discriminate.
Qed.

Lemma succs_fresh m k (tr : list (nat * cevent)) :
  (forall m' e, In (m', e) tr -> m' <> m) -> succs m k tr = [].
Proof.
  induction tr as [|[m' e] tr IH]; intros H; cbn; auto.
  unfold is_succ at 1. cbn [fst snd].
  assert (m' <> m) as N by (eapply H; left; reflexivity).
  apply Nat.eqb_neq in N. rewrite N. cbn. apply IH. intros m2 e2 Hin. eapply H. right. exact Hin.
Qed.

Lemma handle_some (w : world) h m : handle w h = Some m <-> nth_error (w_handles I w) h = Some (Some m).
Proof.
  unfold Memoizer.handle. destruct (nth_error (w_handles I w) h) as [[m'|]|]; split; intros H; congruence.
Qed.

(* get_for_lang either reuses a live memoizer of that language or allocates *)
Lemma get_for_lang_cases (w : world) l :
  (exists m, lfind l (w_map I w) = Some m /\ live m (w_handles I w) = true /\ get_for_lang I w l = (w, m))
  \/ ((forall m, lfind l (w_map I w) = Some m -> live m (w_handles I w) = false) /\
      get_for_lang I w l = alloc_insert I w l).
Proof.
  unfold get_for_lang, upgrade. destruct (lfind l (w_map I w)) as [wk|] eqn:F.
  - destruct (live wk (w_handles I w)) eqn:L.
    + left. exists wk. auto.
    + right. split; auto. intros m Hm. inversion Hm. subst. exact L.
  - right. split; auto. intros m Hm. discriminate.
Qed.

Lemma inv_get (w : world) l w' out : Inv w -> step w (OpGet l) = (w', out) -> Inv w'.
Proof.
  intros HI Hs. cbn in Hs.
  destruct (get_for_lang_cases w l) as [[m [F [L G]]]|[NL G]]; rewrite G in Hs.
  - (* reuse *)
    inversion Hs; subst; clear Hs.
    destruct (inv_map _ HI _ _ F) as [lm0 [Hm0 Hl0]].
    constructor; cbn; try apply HI.
    + intros h m' Hn. destruct (Nat.lt_ge_cases h (length (w_handles I w))) as [Lt|Ge].
      * rewrite nth_error_app1 in Hn by exact Lt. eapply inv_handles; eauto.
      * rewrite nth_error_app2 in Hn by exact Ge.
        destruct (h - length (w_handles I w)) as [|[|x]]; cbn in Hn; try discriminate.
        inversion Hn; subst. eapply inv_heap_lt; eauto.
    + intros h m' lm Hn Hh. destruct (Nat.lt_ge_cases h (length (w_handles I w))) as [Lt|Ge].
      * rewrite nth_error_app1 in Hn by exact Lt. eapply inv_live_map; eauto.
      * rewrite nth_error_app2 in Hn by exact Ge.
        destruct (h - length (w_handles I w)) as [|[|x]]; cbn in Hn; try discriminate.
        inversion Hn; subst. rewrite Hm0 in Hh. inversion Hh; subst. exact F.
  - (* allocate *)
    unfold alloc_insert in Hs. inversion Hs; subst; clear Hs.
    assert (forall m' lm, hfind m' (w_heap I w) = Some lm -> Nat.eqb (w_next I w) m' = false) as Hfresh.
    { intros m' lm Hh. apply Nat.eqb_neq. apply (inv_heap_lt _ HI) in Hh. lia. }
    constructor; cbn [w_counter w_trace w_next w_heap w_map w_handles].
    + intros m' lm. cbn. destruct (Nat.eqb (w_next I w) m') eqn:Q.
      * apply Nat.eqb_eq in Q. lia.
      * intros Hh. apply (inv_heap_lt _ HI) in Hh. lia.
    + intros m' Hlt. cbn. destruct (Nat.eqb (w_next I w) m') eqn:Q; eauto.
      apply Nat.eqb_neq in Q. apply (inv_heap_ex _ HI). lia.
    + intros h m' Hn. destruct (Nat.lt_ge_cases h (length (w_handles I w))) as [Lt|Ge].
      * rewrite nth_error_app1 in Hn by exact Lt. apply (inv_handles _ HI) in Hn. lia.
      * rewrite nth_error_app2 in Hn by exact Ge.
        destruct (h - length (w_handles I w)) as [|[|x]]; cbn in Hn; try discriminate.
        inversion Hn; subst. lia.
    + intros l' m'. cbn. destruct (bytes_eqb l l') eqn:Q.
      * apply bytes_eqb_eq in Q. subst l'. intros Hm. inversion Hm; subst.
        rewrite Nat.eqb_refl. eexists. split; reflexivity.
      * intros Hm. destruct (inv_map _ HI _ _ Hm) as [lm [Hh Hl]].
        rewrite (Hfresh _ _ Hh). eauto.
    + intros h m' lm Hn. cbn.
      destruct (Nat.lt_ge_cases h (length (w_handles I w))) as [Lt|Ge].
      * rewrite nth_error_app1 in Hn by exact Lt.
        assert (m' < w_next I w) as Hlt by (eapply inv_handles; eauto).
        assert (Nat.eqb (w_next I w) m' = false) as Q by (apply Nat.eqb_neq; lia).
        rewrite Q. intros Hh. pose proof (inv_live_map _ HI _ _ _ Hn Hh) as Hl.
        destruct (bytes_eqb l (lm_lang I lm)) eqn:QL; auto.
        apply bytes_eqb_eq in QL. subst l. apply NL in Hl.
        apply live_of_handle in Hn. congruence.
      * rewrite nth_error_app2 in Hn by exact Ge.
        destruct (h - length (w_handles I w)) as [|[|x]]; cbn in Hn; try discriminate.
        inversion Hn; subst. rewrite Nat.eqb_refl. intros Hh. inversion Hh; subst. cbn.
        rewrite bytes_eqb_refl. reflexivity.
    + intros m' e Hin. destruct (inv_trace _ HI _ _ Hin) as [Hn [lm [Hh Hl]]]. split; auto.
      exists lm. cbn. rewrite (Hfresh _ _ Hh). auto.
    + intros m' lm k. cbn. destruct (Nat.eqb (w_next I w) m') eqn:Q.
      * apply Nat.eqb_eq in Q. subst m'. intros Hh. inversion Hh; subst. cbn.
        apply succs_fresh. intros m2 e Hin Heq. subst m2.
        destruct (inv_trace _ HI _ _ Hin) as [_ [lm [Hh2 _]]]. apply (inv_heap_lt _ HI) in Hh2. lia.
      * apply (inv_succ _ HI).
Qed.

Lemma inv_drop (w : world) h w' out : Inv w -> step w (OpDrop h) = (w', out) -> Inv w'.
Proof.
  intros HI Hs. cbn in Hs. destruct (handle w h) as [m|]; inversion Hs; subst; clear Hs; auto.
  constructor; cbn; try apply HI.
  - intros h' m' Hn. apply set_nth_none_some in Hn. eapply inv_handles; eauto.
  - intros h' m' lm Hn. apply set_nth_none_some in Hn. eapply inv_live_map; eauto.
Qed.

Lemma succs_cons m k (x : nat * cevent) tr :
  succs m k (x :: tr) = if is_succ m k x then x :: succs m k tr else succs m k tr.
Proof. reflexivity. Qed.

Lemma is_succ_false m' k m l t a n : is_succ m' k (m, mk_cevent l t a n false) = false.
Proof. unfold is_succ. cbn. apply Bool.andb_false_r. Qed.

Lemma is_succ_true m' k m l t a n :
  is_succ m' k (m, mk_cevent l t a n true) = Nat.eqb m m' && key_eqb (t, a) k.
Proof. unfold is_succ. cbn. apply Bool.andb_true_r. Qed.

Lemma inv_with (w : world) h t a cb w' out : Inv w -> step w (OpWith h t a cb) = (w', out) -> Inv w'.
Proof.
  intros HI Hs. cbn in Hs. destruct (handle w h) as [m|] eqn:Hh; [|inversion Hs; subst; auto].
  destruct (hfind m (w_heap I w)) as [lm|] eqn:Hm; [|inversion Hs; subst; auto].
  apply handle_some in Hh.
  assert (m < w_next I w) as Hlt by (eapply inv_handles; eauto).
  destruct (wtg_cases lm (w_counter I w) t a cb) as [[i [F W]]|[[F [er [C W]]]|[F [i [C W]]]]];
    rewrite W in Hs; inversion Hs; subst; clear Hs W.
  - (* hit *)
    pose proof (hfind_cons_same _ _ (w_heap I w) m Hm) as HC. cbn [map app].
    constructor; cbn [w_counter w_trace w_next w_heap w_map w_handles].
    + intros m' lm2. rewrite (hfind_cons_same _ _ _ _ Hm). apply (inv_heap_lt _ HI).
    + intros m' Hl. rewrite (hfind_cons_same _ _ _ _ Hm). apply (inv_heap_ex _ HI). exact Hl.
    + apply (inv_handles _ HI).
    + intros l m' Hl. rewrite (hfind_cons_same _ _ _ _ Hm). apply (inv_map _ HI). exact Hl.
    + intros h' m' lm2 Hn. rewrite (hfind_cons_same _ _ _ _ Hm). intros Hh2. eapply (inv_live_map _ HI); eauto.
    + intros m' e Hin. rewrite (hfind_cons_same _ _ _ _ Hm). apply (inv_trace _ HI). exact Hin.
    + intros m' lm2 k. rewrite (hfind_cons_same _ _ _ _ Hm). apply (inv_succ _ HI).
  - (* construct failed *)
    cbn [map app].
    constructor; cbn [w_counter w_trace w_next w_heap w_map w_handles].
    + intros m' lm2. rewrite (hfind_cons_same _ _ _ _ Hm). apply (inv_heap_lt _ HI).
    + intros m' Hl. rewrite (hfind_cons_same _ _ _ _ Hm). apply (inv_heap_ex _ HI). exact Hl.
    + apply (inv_handles _ HI).
    + intros l m' Hl. rewrite (hfind_cons_same _ _ _ _ Hm). apply (inv_map _ HI). exact Hl.
    + intros h' m' lm2 Hn. rewrite (hfind_cons_same _ _ _ _ Hm). intros Hh2. eapply (inv_live_map _ HI); eauto.
    + intros m' e. rewrite (hfind_cons_same _ _ _ _ Hm). intros [Heq|Hin].
      * inversion Heq; subst. cbn. split; [lia|]. exists lm. auto.
      * destruct (inv_trace _ HI _ _ Hin) as [Hn [lm2 [H2 H3]]]. split; [lia|]. exists lm2. auto.
    + intros m' lm2 k. rewrite (hfind_cons_same _ _ _ _ Hm). intros Hh2.
      rewrite succs_cons, is_succ_false. apply (inv_succ _ HI). exact Hh2.
  - (* constructed *)
    set (lm' := mk_lmemo I (lm_lang I lm) (((t, a), i) :: lm_table I lm)).
    assert (forall m', hfind m' ((m, lm') :: w_heap I w) =
                       if Nat.eqb m m' then Some lm' else hfind m' (w_heap I w)) as HF by reflexivity.
    constructor; cbn [w_counter w_trace w_next w_heap w_map w_handles map app].
    + intros m' lm2. rewrite HF. destruct (Nat.eqb m m') eqn:Q.
      * apply Nat.eqb_eq in Q. subst. auto.
      * apply (inv_heap_lt _ HI).
    + intros m' Hl. rewrite HF. destruct (Nat.eqb m m'); eauto. apply (inv_heap_ex _ HI). exact Hl.
    + apply (inv_handles _ HI).
    + intros l m' Hl. rewrite HF. destruct (inv_map _ HI _ _ Hl) as [lm2 [H2 H3]].
      destruct (Nat.eqb m m') eqn:Q; eauto.
      apply Nat.eqb_eq in Q. subst m'. exists lm'. split; auto. cbn. congruence.
    + intros h' m' lm2 Hn. rewrite HF. destruct (Nat.eqb m m') eqn:Q.
      * apply Nat.eqb_eq in Q. subst m'. intros Heq. inversion Heq; subst. cbn.
        eapply (inv_live_map _ HI); eauto.
      * intros Hh2. eapply (inv_live_map _ HI); eauto.
    + intros m' e [Heq|Hin].
      * inversion Heq; subst. cbn [ev_n ev_lang]. split; [lia|]. exists lm'. rewrite HF, Nat.eqb_refl. auto.
      * destruct (inv_trace _ HI _ _ Hin) as [Hn [lm2 [H2 H3]]]. split; [lia|].
        rewrite HF. destruct (Nat.eqb m m') eqn:Q; eauto.
        apply Nat.eqb_eq in Q. subst m'. exists lm'. split; auto. cbn. congruence.
    + intros m' lm2 k. rewrite HF, succs_cons, is_succ_true. destruct (Nat.eqb m m') eqn:Q.
      * apply Nat.eqb_eq in Q. subst m'. intros Heq. inversion Heq; subst lm2. unfold lm'. cbn [lm_table Memoizer.tfind andb].
        destruct (key_eqb (t, a) k) eqn:QK.
        -- apply key_eqb_eq in QK. subst k. pose proof (inv_succ _ HI _ _ (t, a) Hm) as S0.
           rewrite F in S0. rewrite S0. eexists. split; [reflexivity|]. exact C.
        -- apply (inv_succ _ HI _ _ k Hm).
      * cbn [andb]. apply (inv_succ _ HI).
Qed.

Lemma step_inv (w : world) o w' out : Inv w -> step w o = (w', out) -> Inv w'.
Proof.
  destruct o; intros HI Hs; [eapply inv_get|eapply inv_drop|eapply inv_with]; eauto.
Qed.

Lemma run_cons (w : world) o r :
  run w (o :: r) = (snd (step w o) :: fst (run (fst (step w o)) r), snd (run (fst (step w o)) r)).
Proof. cbn. destruct (step w o) as [w1 out]. cbn. destruct (run w1 r). reflexivity. Qed.

Lemma exec_cons (w : world) o r : exec w (o :: r) = exec (fst (step w o)) r.
Proof. unfold Memoizer.exec. rewrite run_cons. reflexivity. Qed.

Lemma outputs_cons (w : world) o r : outputs w (o :: r) = snd (step w o) :: outputs (fst (step w o)) r.
Proof. unfold Memoizer.outputs. rewrite run_cons. reflexivity. Qed.

Lemma exec_app (w : world) a b : exec w (a ++ b) = exec (exec w a) b.
Proof.
  revert w. induction a as [|o a IH]; intros w; [reflexivity|].
  rewrite <- app_comm_cons, !exec_cons. apply IH.
Qed.

Lemma outputs_app (w : world) a b : outputs w (a ++ b) = outputs w a ++ outputs (exec w a) b.
Proof.
  revert w. induction a as [|o a IH]; intros w; [reflexivity|].
  rewrite <- app_comm_cons, !outputs_cons, exec_cons, IH. reflexivity.
Qed.

Lemma outputs_length (w : world) ops : length (outputs w ops) = length ops.
Proof. revert w. induction ops as [|o r IH]; intros w; [reflexivity|]. rewrite outputs_cons. cbn. auto. Qed.

Lemma exec_inv (w : world) ops : Inv w -> Inv (exec w ops).
Proof.
  revert w. induction ops as [|o r IH]; intros w HI; [exact HI|].
  rewrite exec_cons. apply IH. destruct (step w o) as [w1 out] eqn:S. eapply step_inv; eauto.
Qed.

Lemma reachable_inv ops : Inv (exec init ops).
Proof. apply exec_inv, inv_init. Qed.

(* ---- the trace only grows, by at most one event per step *)
Lemma step_trace (w : world) o w' out : step w o = (w', out) ->
  exists evs, w_trace I w' = evs ++ w_trace I w /\ length evs <= 1.
Proof.
  intros Hs. destruct o as [l|h|h t a cb]; cbn in Hs.
  - destruct (get_for_lang_cases w l) as [[m [_ [_ G]]]|[_ G]]; rewrite G in Hs;
      inversion Hs; subst; exists []; cbn; auto.
  - destruct (handle w h); inversion Hs; subst; exists []; cbn; auto.
  - destruct (handle w h) as [m|]; [|inversion Hs; subst; exists []; cbn; auto].
    destruct (hfind m (w_heap I w)) as [lm|]; [|inversion Hs; subst; exists []; cbn; auto].
    destruct (wtg_cases lm (w_counter I w) t a cb) as [[i [F W]]|[[F [er [C W]]]|[F [i [C W]]]]];
      rewrite W in Hs; inversion Hs; subst; cbn [map app w_trace];
      [exists [] | eexists [_] | eexists [_]]; (split; [reflexivity | cbn; lia]).
Qed.

Lemma exec_trace (w : world) ops : exists evs, w_trace I (exec w ops) = evs ++ w_trace I w.
Proof.
  revert w. induction ops as [|o r IH]; intros w; [exists []; reflexivity|].
  rewrite exec_cons. destruct (step w o) as [w1 out] eqn:S. cbn.
  destruct (step_trace _ _ _ _ S) as [e1 [H1 _]]. destruct (IH w1) as [e2 H2].
  exists (e2 ++ e1). rewrite H2, H1, app_assoc. reflexivity.
Qed.

(* ---- C14_once *)
Lemma once_inv (w : world) : Inv w -> forall m k, length (succs m k (w_trace I w)) <= 1.
Proof.
  intros HI m k. destruct (Nat.lt_ge_cases m (w_next I w)) as [L|G].
  - destruct (inv_heap_ex _ HI _ L) as [lm Hh]. pose proof (inv_succ _ HI _ _ k Hh) as S.
    destruct (tfind k (lm_table I lm)).
    + destruct S as [e [-> _]]. cbn. lia.
    + rewrite S. cbn. lia.
  - rewrite succs_fresh; [cbn; lia|]. intros m' e Hin Heq. subst.
    destruct (inv_trace _ HI _ _ Hin) as [_ [lm [Hh _]]]. apply (inv_heap_lt _ HI) in Hh. lia.
Qed.

Lemma succs_app m k (a b : list (nat * cevent)) : succs m k (a ++ b) = succs m k a ++ succs m k b.
Proof. apply filter_app. Qed.

Lemma succs_stable (w : world) ops m k x : Inv w ->
  succs m k (w_trace I w) = [x] -> succs m k (w_trace I (exec w ops)) = [x].
Proof.
  intros HI Hx. destruct (exec_trace w ops) as [evs Ht].
  pose proof (once_inv _ (exec_inv w ops HI) m k) as L.
  rewrite Ht, succs_app, Hx in *. rewrite app_length in L. cbn in L.
  destruct (succs m k evs); cbn in *; [reflexivity|lia].
Qed.

(* ---- C14_args_lang *)
Lemma with_events (w : world) h t a cb w' out : step w (OpWith h t a cb) = (w', out) ->
  exists evs, w_trace I w' = evs ++ w_trace I w /\ length evs <= 1 /\
    forall me, In me evs ->
      handle w h = Some (fst me) /\ ev_type (snd me) = t /\ ev_args (snd me) = a /\
      ev_n (snd me) = w_counter I w /\ memo_lang w (fst me) = Some (ev_lang (snd me)).
Proof.
  intros Hs. cbn in Hs.
  destruct (handle w h) as [m|] eqn:Hh; [|inversion Hs; subst; exists []; cbn; intuition].
  destruct (hfind m (w_heap I w)) as [lm|] eqn:Hm; [|inversion Hs; subst; exists []; cbn; intuition].
  destruct (wtg_cases lm (w_counter I w) t a cb) as [[i [F W]]|[[F [er [C W]]]|[F [i [C W]]]]];
    rewrite W in Hs; inversion Hs; subst; cbn [map app w_trace].
  - exists []. cbn. intuition.
  - eexists [_]. split; [reflexivity|]. split; [cbn; lia|]. intros me [<-|[]]. cbn.
    unfold Memoizer.memo_lang. rewrite Hm. auto.
  - eexists [_]. split; [reflexivity|]. split; [cbn; lia|]. intros me [<-|[]]. cbn.
    unfold Memoizer.memo_lang. rewrite Hm. auto.
Qed.

Lemma other_events (w : world) o w' out : step w o = (w', out) ->
  (forall h t a cb, o <> OpWith h t a cb) -> w_trace I w' = w_trace I w.
Proof.
  intros Hs Hn. destruct o as [l|h|h t a cb]; cbn in Hs.
  - destruct (get_for_lang_cases w l) as [[m [_ [_ G]]]|[_ G]]; rewrite G in Hs; inversion Hs; subst; reflexivity.
  - destruct (handle w h); inversion Hs; subst; reflexivity.
  - exfalso. eapply Hn. reflexivity.
Qed.

Lemma get_lang (w : world) l w' m : Inv w -> step w (OpGet l) = (w', OutMemo m) -> memo_lang w' m = Some l.
Proof.
  intros HI Hs. cbn in Hs.
  destruct (get_for_lang_cases w l) as [[m0 [F [L G]]]|[NL G]]; rewrite G in Hs.
  - inversion Hs; subst. unfold Memoizer.memo_lang. cbn.
    destruct (inv_map _ HI _ _ F) as [lm [-> <-]]. reflexivity.
  - unfold alloc_insert in Hs. inversion Hs; subst. unfold Memoizer.memo_lang. cbn.
    rewrite Nat.eqb_refl. reflexivity.
Qed.

Lemma lang_stable (w : world) o w' out m l : Inv w -> step w o = (w', out) ->
  memo_lang w m = Some l -> memo_lang w' m = Some l.
Proof.
  intros HI Hs. unfold Memoizer.memo_lang.
  destruct (hfind m (w_heap I w)) as [lm0|] eqn:H0; [|discriminate]. intros HL.
  assert (m < w_next I w) as Hlt by (eapply inv_heap_lt; eauto).
  destruct o as [l'|h|h t a cb]; cbn in Hs.
  - destruct (get_for_lang_cases w l') as [[m0 [F [L G]]]|[NL G]]; rewrite G in Hs.
    + inversion Hs; subst. cbn. rewrite H0. exact HL.
    + unfold alloc_insert in Hs. inversion Hs; subst. cbn.
      assert (Nat.eqb (w_next I w) m = false) as Q by (apply Nat.eqb_neq; lia). rewrite Q, H0. exact HL.
  - destruct (handle w h); inversion Hs; subst; cbn; rewrite H0; exact HL.
  - destruct (handle w h) as [m1|]; [|inversion Hs; subst; rewrite H0; exact HL].
    destruct (hfind m1 (w_heap I w)) as [lm|] eqn:Hm; [|inversion Hs; subst; rewrite H0; exact HL].
    destruct (wtg_cases lm (w_counter I w) t a cb) as [[i [F W]]|[[F [er [C W]]]|[F [i [C W]]]]];
      rewrite W in Hs; inversion Hs; subst; cbn [w_heap Memoizer.hfind];
      destruct (Nat.eqb m1 m) eqn:Q; try (rewrite H0; exact HL);
      apply Nat.eqb_eq in Q; subst m1; rewrite H0 in Hm; inversion Hm; subst; cbn; exact HL.
Qed.

Lemma lang_stable_exec (w : world) ops m l : Inv w -> memo_lang w m = Some l -> memo_lang (exec w ops) m = Some l.
Proof.
  revert w. induction ops as [|o r IH]; intros w HI HL; [exact HL|].
  rewrite exec_cons. destruct (step w o) as [w1 out] eqn:S. cbn.
  apply IH; [eapply step_inv; eauto|eapply lang_stable; eauto].
Qed.

(* every construct call of a history was made by a with_try_get of that history, on a handle of that
   memoizer, with exactly the requested type and args, the memoizer's language, the current counter *)
Lemma trace_origin ops : forall me, In me (w_trace I (exec init ops)) ->
  exists pre h cb post,
    ops = pre ++ OpWith h (ev_type (snd me)) (ev_args (snd me)) cb :: post /\
    handle (exec init pre) h = Some (fst me) /\
    ev_n (snd me) = w_counter I (exec init pre) /\
    memo_lang (exec init ops) (fst me) = Some (ev_lang (snd me)).
Proof.
  induction ops as [|o ops IH] using rev_ind; intros me Hin; [contradiction|].
  rewrite exec_app in Hin |- *. set (w := exec init ops) in *.
  unfold Memoizer.exec at 1 in Hin. cbn [Memoizer.run] in Hin.
  destruct (step w o) as [w1 out] eqn:S. cbn in Hin.
  assert (exec w [o] = w1) as Ew by (unfold Memoizer.exec; cbn; rewrite S; reflexivity).
  rewrite Ew. pose proof (reachable_inv ops) as HI. fold w in HI.
  assert (In me (w_trace I w) ->
          exists pre h cb post, ops ++ [o] = pre ++ OpWith h (ev_type (snd me)) (ev_args (snd me)) cb :: post /\
            handle (exec init pre) h = Some (fst me) /\ ev_n (snd me) = w_counter I (exec init pre) /\
            memo_lang w1 (fst me) = Some (ev_lang (snd me))) as Old.
  { intros Hold. destruct (IH me Hold) as [pre [h [cb [post [E1 [E2 [E3 E4]]]]]]].
    exists pre, h, cb, (post ++ [o]). split; [rewrite E1, <- app_assoc; reflexivity|].
    split; auto. split; auto. eapply lang_stable; eauto. }
  destruct o as [l|h0|h0 t a cb].
  - rewrite (other_events _ _ _ _ S) in Hin by (intros; discriminate). auto.
  - rewrite (other_events _ _ _ _ S) in Hin by (intros; discriminate). auto.
  - destruct (with_events _ _ _ _ _ _ _ S) as [evs [Ht [_ Hev]]]. rewrite Ht in Hin.
    apply in_app_or in Hin. destruct Hin as [Hnew|Hold]; auto.
    destruct (Hev me Hnew) as [A [B [C [D F]]]]. subst t a.
    exists ops, h0, cb, []. split; [reflexivity|]. split; auto. split; auto.
    eapply lang_stable; eauto.
Qed.

(* ---- C14_same_inst *)
Lemma with_ok_cached (w : world) h t a cb w' r : step w (OpWith h t a cb) = (w', OutRes (Ok r)) ->
  exists m i, handle w h = Some m /\ cached w' m (t, a) = Some i /\ r = callback cb i /\
              exists lm', hfind m (w_heap I w') = Some lm'.
Proof.
  intros Hs. cbn in Hs. destruct (handle w h) as [m|] eqn:Hh; [|inversion Hs].
  destruct (hfind m (w_heap I w)) as [lm|] eqn:Hm; [|inversion Hs].
  destruct (wtg_cases lm (w_counter I w) t a cb) as [[i [F W]]|[[F [er [C W]]]|[F [i [C W]]]]];
    rewrite W in Hs; inversion Hs; subst; exists m, i; unfold Memoizer.cached; cbn; rewrite Nat.eqb_refl.
  - eauto.
  - cbn. rewrite key_eqb_refl. eauto.
Qed.

Lemma same_inst_step (w : world) h t a cb w' r : Inv w -> step w (OpWith h t a cb) = (w', OutRes (Ok r)) ->
  exists m e i, handle w h = Some m /\ succs m (t, a) (w_trace I w') = [(m, e)] /\
                construct (ev_lang e) t a (ev_n e) = Ok i /\ r = callback cb i.
Proof.
  intros HI Hs. pose proof (step_inv _ _ _ _ HI Hs) as HI'.
  destruct (with_ok_cached _ _ _ _ _ _ _ Hs) as [m [i [Hh [Hc [Hr [lm' Hm']]]]]].
  unfold Memoizer.cached in Hc. rewrite Hm' in Hc.
  pose proof (inv_succ _ HI' _ _ (t, a) Hm') as S. rewrite Hc in S. destruct S as [e [S1 S2]].
  exists m, e, i. auto.
Qed.

Lemma same_inst_history pre h t a cb post w' r :
  step (exec init pre) (OpWith h t a cb) = (w', OutRes (Ok r)) ->
  exists m e i, handle (exec init pre) h = Some m /\
                succs m (t, a) (w_trace I (exec w' post)) = [(m, e)] /\
                construct (ev_lang e) t a (ev_n e) = Ok i /\ r = callback cb i.
Proof.
  intros Hs. pose proof (reachable_inv pre) as HI.
  destruct (same_inst_step _ _ _ _ _ _ _ HI Hs) as [m [e [i [A [B [C D]]]]]].
  exists m, e, i. split; auto. split; auto. apply succs_stable; auto. eapply step_inv; eauto.
Qed.

Lemma same_inst_run ops : forall (w : world), Inv w -> forall h t a cb r,
  In (OpWith h t a cb, OutRes (Ok r)) (combine ops (outputs w ops)) ->
  exists m e i, succs m (t, a) (w_trace I (exec w ops)) = [(m, e)] /\
                construct (ev_lang e) t a (ev_n e) = Ok i /\ r = callback cb i.
Proof.
  induction ops as [|o ops IH]; intros w HI h t a cb r Hin; [contradiction|].
  rewrite outputs_cons in Hin. rewrite exec_cons. destruct (step w o) as [w1 out] eqn:S. cbn in Hin |- *.
  pose proof (step_inv _ _ _ _ HI S) as HI1.
  destruct Hin as [Heq|Hin].
  - inversion Heq; subst. destruct (same_inst_step _ _ _ _ _ _ _ HI S) as [m [e [i [A [B [C D]]]]]].
    exists m, e, i. split; auto. apply succs_stable; auto.
  - eapply IH; eauto.
Qed.

(* ---- C14_fail *)
Lemma cached_step (w : world) o w' out m k i : Inv w -> step w o = (w', out) ->
  cached w m k = Some i -> cached w' m k = Some i.
Proof.
  intros HI Hs. unfold Memoizer.cached.
  destruct (hfind m (w_heap I w)) as [lm0|] eqn:H0; [|discriminate]. intros HL.
  assert (m < w_next I w) as Hlt by (eapply inv_heap_lt; eauto).
  destruct o as [l'|h|h t a cb]; cbn in Hs.
  - destruct (get_for_lang_cases w l') as [[m0 [F [L G]]]|[NL G]]; rewrite G in Hs.
    + inversion Hs; subst. cbn. rewrite H0. exact HL.
    + unfold alloc_insert in Hs. inversion Hs; subst. cbn.
      assert (Nat.eqb (w_next I w) m = false) as Q by (apply Nat.eqb_neq; lia). rewrite Q, H0. exact HL.
  - destruct (handle w h); inversion Hs; subst; cbn; rewrite H0; exact HL.
  - destruct (handle w h) as [m1|]; [|inversion Hs; subst; rewrite H0; exact HL].
    destruct (hfind m1 (w_heap I w)) as [lm|] eqn:Hm; [|inversion Hs; subst; rewrite H0; exact HL].
    destruct (wtg_cases lm (w_counter I w) t a cb) as [[i' [F W]]|[[F [er [C W]]]|[F [i' [C W]]]]];
      rewrite W in Hs; inversion Hs; subst; cbn [w_heap Memoizer.hfind];
      destruct (Nat.eqb m1 m) eqn:Q; try (rewrite H0; exact HL);
      apply Nat.eqb_eq in Q; subst m1; rewrite H0 in Hm; inversion Hm; subst; try exact HL.
    cbn [lm_table Memoizer.tfind]. destruct (key_eqb (t, a) k) eqn:QK; auto.
    apply key_eqb_eq in QK. subst k. congruence.
Qed.

(* a with_try_get touches nothing but its own key in its own memoizer *)
Lemma with_other_keys (w : world) h t a cb w' out m m' k : step w (OpWith h t a cb) = (w', out) ->
  handle w h = Some m -> (m', k) <> (m, (t, a)) -> cached w' m' k = cached w m' k.
Proof.
  intros Hs Hh Hne. cbn in Hs. rewrite Hh in Hs. unfold Memoizer.cached.
  destruct (hfind m (w_heap I w)) as [lm|] eqn:Hm; [|inversion Hs; subst; reflexivity].
  destruct (wtg_cases lm (w_counter I w) t a cb) as [[i' [F W]]|[[F [er [C W]]]|[F [i' [C W]]]]];
    rewrite W in Hs; inversion Hs; subst; cbn [w_heap Memoizer.hfind];
    destruct (Nat.eqb m m') eqn:Q; try reflexivity;
    apply Nat.eqb_eq in Q; subst m'; rewrite Hm; try reflexivity.
  cbn [lm_table Memoizer.tfind]. rewrite key_eqb_neq; [reflexivity|]. intros Heq. apply Hne. congruence.
Qed.

(* what a with_try_get on a live handle does, as a function of the cache and of construct *)
Lemma with_spec (w : world) h t a cb m l : Inv w -> handle w h = Some m -> memo_lang w m = Some l ->
  exists w', step w (OpWith h t a cb) =
    (w', match cached w m (t, a) with
         | Some i => OutRes (Ok (callback cb i))
         | None => match construct l t a (w_counter I w) with
                   | Ok i => OutRes (Ok (callback cb i))
                   | Err er => OutRes (Err er)
                   end
         end) /\
    w_handles I w' = w_handles I w /\ w_map I w' = w_map I w /\ w_next I w' = w_next I w /\
    (forall m2, memo_lang w' m2 = memo_lang w m2) /\
    match cached w m (t, a) with
    | Some i => w_counter I w' = w_counter I w /\ w_trace I w' = w_trace I w /\
                forall m2 k, cached w' m2 k = cached w m2 k
    | None => w_counter I w' = S (w_counter I w) /\
              match construct l t a (w_counter I w) with
              | Ok i => w_trace I w' = (m, mk_cevent l t a (w_counter I w) true) :: w_trace I w /\
                        cached w' m (t, a) = Some i
              | Err er => w_trace I w' = (m, mk_cevent l t a (w_counter I w) false) :: w_trace I w /\
                          forall m2 k, cached w' m2 k = cached w m2 k
              end
    end.
Proof.
  intros HI Hh HL. unfold Memoizer.memo_lang, Memoizer.cached in *. cbn [Memoizer.step]. rewrite Hh.
  destruct (hfind m (w_heap I w)) as [lm|] eqn:Hm; [|discriminate]. inversion HL; subst l; clear HL.
  assert (forall lm', lm_lang I lm' = lm_lang I lm -> forall m2,
            match Memoizer.hfind I m2 ((m, lm') :: w_heap I w) with Some x => Some (lm_lang I x) | None => None end =
            match hfind m2 (w_heap I w) with Some x => Some (lm_lang I x) | None => None end) as HLang.
  { intros lm' El m2. cbn. destruct (Nat.eqb m m2) eqn:Q; auto. apply Nat.eqb_eq in Q. subst. rewrite Hm. congruence. }
  destruct (wtg_cases lm (w_counter I w) t a cb) as [[i [F W]]|[[F [er [C W]]]|[F [i [C W]]]]];
    rewrite W, F; [| rewrite C | rewrite C]; eexists; (split; [reflexivity|]); cbn [w_handles w_map w_next w_counter w_trace w_heap map app];
    repeat split; auto.
  - intros m2 k. rewrite (hfind_cons_same _ _ _ _ Hm). reflexivity.
  - intros m2 k. rewrite (hfind_cons_same _ _ _ _ Hm). reflexivity.
  - cbn. rewrite Nat.eqb_refl. cbn. rewrite key_eqb_refl. reflexivity.
Qed.

(* a failed construction: the error comes back, nothing is cached anywhere, and a retry constructs again *)
Lemma fail_spec (w : world) h t a cb m l er : Inv w -> handle w h = Some m -> memo_lang w m = Some l ->
  cached w m (t, a) = None -> construct l t a (w_counter I w) = Err er ->
  exists w', step w (OpWith h t a cb) = (w', OutRes (Err er)) /\
    (forall m2 k, cached w' m2 k = cached w m2 k) /\
    w_handles I w' = w_handles I w /\ w_map I w' = w_map I w /\ w_counter I w' = S (w_counter I w) /\
    w_trace I w' = (m, mk_cevent l t a (w_counter I w) false) :: w_trace I w /\
    forall h2 cb2, handle w h2 = Some m ->
      exists w'', step w' (OpWith h2 t a cb2) =
        (w'', match construct l t a (S (w_counter I w)) with
              | Ok i => OutRes (Ok (callback cb2 i))
              | Err er2 => OutRes (Err er2)
              end).
Proof.
  intros HI Hh HL HC HE.
  destruct (with_spec w h t a cb m l HI Hh HL) as [w' [S [A [B [N [ML T]]]]]].
  rewrite HC, HE in S, T. destruct T as [T1 [T2 T3]].
  exists w'. repeat split; auto.
  intros h2 cb2 Hh2. pose proof (step_inv _ _ _ _ HI S) as HI'.
  assert (handle w' h2 = Some m) as Hh2' by (unfold Memoizer.handle in *; rewrite A; exact Hh2).
  assert (memo_lang w' m = Some l) as HL' by (rewrite ML; exact HL).
  destruct (with_spec w' h2 t a cb2 m l HI' Hh2' HL') as [w'' [S2 _]].
  rewrite T3, HC, T1 in S2. exists w''. exact S2.
Qed.

(* an error result is the constructor's error of a logged, failed construct call with the requested key *)
Lemma err_step (w : world) h t a cb w' er : step w (OpWith h t a cb) = (w', OutRes (Err er)) ->
  exists m e, handle w h = Some m /\ w_trace I w' = (m, e) :: w_trace I w /\ ev_key e = (t, a) /\
              ev_ok e = false /\ construct (ev_lang e) t a (ev_n e) = Err er /\
              forall m2 k, cached w' m2 k = cached w m2 k.
Proof.
  intros Hs. cbn in Hs. destruct (handle w h) as [m|] eqn:Hh; [|inversion Hs].
  destruct (hfind m (w_heap I w)) as [lm|] eqn:Hm; [|inversion Hs].
  destruct (wtg_cases lm (w_counter I w) t a cb) as [[i [F W]]|[[F [er' [C W]]]|[F [i [C W]]]]];
    rewrite W in Hs; inversion Hs; subst.
  eexists m, _. split; [reflexivity|]. split; [reflexivity|]. cbn. repeat split; auto.
  intros m2 k. unfold Memoizer.cached. cbn [w_heap]. rewrite (hfind_cons_same _ _ _ _ Hm). reflexivity.
Qed.

Lemma err_run ops : forall (w : world) h t a cb er,
  In (OpWith h t a cb, OutRes (Err er)) (combine ops (outputs w ops)) ->
  exists m e, In (m, e) (w_trace I (exec w ops)) /\ ev_key e = (t, a) /\ ev_ok e = false /\
              construct (ev_lang e) t a (ev_n e) = Err er.
Proof.
  induction ops as [|o ops IH]; intros w h t a cb er Hin; [contradiction|].
  rewrite outputs_cons in Hin. rewrite exec_cons. destruct (step w o) as [w1 out] eqn:S. cbn in Hin |- *.
  destruct Hin as [Heq|Hin].
  - inversion Heq; subst. destruct (err_step _ _ _ _ _ _ _ S) as [m [e [_ [T [K [O [C _]]]]]]].
    exists m, e. destruct (exec_trace w1 ops) as [evs Ht]. rewrite Ht, T. split; auto.
    apply in_or_app. right. left. reflexivity.
  - eapply IH; eauto.
Qed.

(* ---- C14_langs *)
Lemma get_shared (w : world) h m l : Inv w -> handle w h = Some m -> memo_lang w m = Some l ->
  step w (OpGet l) =
    (mk_world I (w_counter I w) (w_trace I w) (w_next I w) (w_heap I w) (w_map I w) (w_handles I w ++ [Some m]),
     OutMemo m).
Proof.
  intros HI Hh HL. apply handle_some in Hh. unfold Memoizer.memo_lang in HL.
  destruct (hfind m (w_heap I w)) as [lm|] eqn:Hm; [|discriminate]. inversion HL; subst l.
  pose proof (inv_live_map _ HI _ _ _ Hh Hm) as F. pose proof (live_of_handle _ _ _ Hh) as L.
  cbn. unfold get_for_lang, upgrade. rewrite F, L. reflexivity.
Qed.

Lemma get_fresh (w : world) l : Inv w ->
  (forall h m, handle w h = Some m -> memo_lang w m <> Some l) ->
  exists w', step w (OpGet l) = (w', OutMemo (w_next I w)) /\
             w_next I w' = S (w_next I w) /\ memo_lang w' (w_next I w) = Some l /\
             (forall k, cached w' (w_next I w) k = None) /\
             (forall m k, m < w_next I w -> cached w' m k = cached w m k).
Proof.
  intros HI Hno. cbn [Memoizer.step].
  destruct (get_for_lang_cases w l) as [[m [F [L G]]]|[NL G]]; rewrite G.
  - exfalso. apply live_true_ex in L. destruct L as [h Hn]. apply handle_some in Hn.
    apply (Hno _ _ Hn). unfold Memoizer.memo_lang. destruct (inv_map _ HI _ _ F) as [lm [-> <-]]. reflexivity.
  - unfold alloc_insert. eexists. split; [reflexivity|]. cbn [w_next]. split; [reflexivity|].
    unfold Memoizer.memo_lang, Memoizer.cached. cbn. rewrite Nat.eqb_refl. cbn. repeat split; auto.
    intros m k Hlt. assert (Nat.eqb (w_next I w) m = false) as Q by (apply Nat.eqb_neq; lia). rewrite Q. reflexivity.
Qed.

Lemma get_lang_run ops : forall (w : world), Inv w -> forall l m,
  In (OpGet l, OutMemo m) (combine ops (outputs w ops)) -> memo_lang (exec w ops) m = Some l.
Proof.
  induction ops as [|o ops IH]; intros w HI l m Hin; [contradiction|].
  rewrite outputs_cons in Hin. rewrite exec_cons. destruct (step w o) as [w1 out] eqn:S. cbn in Hin |- *.
  pose proof (step_inv _ _ _ _ HI S) as HI1.
  destruct Hin as [Heq|Hin].
  - inversion Heq; subst. apply lang_stable_exec; auto. exact (get_lang _ _ _ _ HI S).
  - eapply IH; eauto.
Qed.

Lemma drop_spec (w : world) h m : handle w h = Some m ->
  step w (OpDrop h) =
    (mk_world I (w_counter I w) (w_trace I w) (w_next I w) (w_heap I w) (w_map I w) (set_nth h None (w_handles I w)),
     OutDrop).
Proof. intros Hh. cbn. rewrite Hh. reflexivity. Qed.

End Proofs.

(* ------------------------------------------------------------------ the concurrent model *)

Section ConcProofs.
Variables I E R : Type.
Variable construct : lang -> type_id -> args -> nat -> result I E.
Variable callback : cb_id -> I -> R.

Notation world := (world I).
Notation cstate := (cstate I E R).
Notation step := (step I E R construct callback).
Notation exec := (exec I E R construct callback).
Notation outputs := (outputs I E R construct callback).
Notation init := (init I).
Notation sched_step := (sched_step I E R construct callback).
Notation run_schedule := (run_schedule I E R construct callback).
Notation pick := (pick E R).
Notation Inv := (Inv I E construct).

(* successful constructions of key k in a concurrent trace *)
Definition c_is_succ (k : key) (e : cevent) : bool := key_eqb (ev_key e) k && ev_ok e.

(* the concurrent state is the state of the sequential model with one memoizer (allocation 0) and one
   live handle (0) on it *)
Definition Rel (s : cstate) (w : world) : Prop :=
  handle I w 0 = Some 0 /\ hfind I 0 (w_heap I w) = Some (c_memo I E R s) /\
  w_counter I w = c_counter I E R s /\ w_trace I w = map (pair 0) (c_trace I E R s).

Lemma nth_error_nth {X} (l : list X) i x d : nth_error l i = Some x -> nth i l d = x.
Proof. revert i. induction l as [|y l IH]; intros [|i] H; cbn in *; try discriminate; [congruence|auto]. Qed.

Lemma nth_error_lt {X} (l : list X) i x : nth_error l i = Some x -> i < length l.
Proof. intros H. apply nth_error_Some. congruence. Qed.

Lemma sim sched : forall (s : cstate) (w : world),
  Rel s w -> length (c_results I E R s) = length (c_progs I E R s) ->
  let s' := fold_left sched_step sched s in
  let lin := linearize (c_progs I E R s) sched in
  exists rs, outputs w (map op_of lin) = map OutRes rs /\ length rs = length lin /\
    Rel s' (exec w (map op_of lin)) /\
    (forall tid, tid < length (c_progs I E R s) ->
       nth tid (c_results I E R s') [] = nth tid (c_results I E R s) [] ++ pick tid (combine lin rs)) /\
    (forall tid, tid < length (c_progs I E R s) ->
       map fst (pick tid (combine lin rs)) ++ nth tid (c_progs I E R s') [] = nth tid (c_progs I E R s) []).
Proof.
  induction sched as [|tid sched IH]; intros s w HR HL; cbn [fold_left linearize].
  - exists []. cbn. split; [reflexivity|]. split; [reflexivity|]. split; [exact HR|].
    split; intros; [rewrite app_nil_r|]; reflexivity.
  - remember (sched_step s tid) as s1 eqn:Es1. unfold Concurrent.sched_step in Es1.
    destruct (nth_error (c_progs I E R s) tid) as [[|rq rest]|] eqn:P;
      [subst s1; apply IH; assumption | | subst s1; apply IH; assumption].
    destruct rq as [[t a] cb].
    destruct HR as [R1 [R2 [R3 R4]]].
    unfold c_with_try_get in Es1.
    destruct (with_try_get I E R construct callback (c_memo I E R s) (c_counter I E R s) t a cb)
      as [[[lm' n'] r] evs] eqn:W.
    assert (step w (OpWith 0 t a cb) =
            (mk_world I n' (map (pair 0) evs ++ w_trace I w) (w_next I w) ((0, lm') :: w_heap I w)
                      (w_map I w) (w_handles I w), OutRes r)) as S.
    { cbn [Memoizer.step]. rewrite R1, R2, R3, W. reflexivity. }
    set (w1 := mk_world I n' (map (pair 0) evs ++ w_trace I w) (w_next I w) ((0, lm') :: w_heap I w)
                        (w_map I w) (w_handles I w)) in *.
    assert (Rel s1 w1) as HR1.
    { subst s1. unfold Rel, w1. cbn. split; [exact R1|]. split; [reflexivity|]. split; [reflexivity|].
      rewrite map_app, R4. reflexivity. }
    assert (length (c_results I E R s1) = length (c_progs I E R s1)) as HL1.
    { subst s1. cbn. rewrite !set_nth_length. exact HL. }
    destruct (IH s1 w1 HR1 HL1) as [rs [O [Lr [HR' [Hres Hprog]]]]].
    assert (c_progs I E R s1 = set_nth tid rest (c_progs I E R s)) as EP by (subst s1; reflexivity).
    assert (c_results I E R s1 = set_nth tid (nth tid (c_results I E R s) [] ++ [((t, a, cb), r)]) (c_results I E R s)) as ER
      by (subst s1; reflexivity).
    rewrite EP in *. pose proof (nth_error_lt _ _ _ P) as Ltid.
    exists (r :: rs). cbn [map op_of].
    rewrite (outputs_cons I E R construct callback), (exec_cons I E R construct callback), S. cbn [fst snd].
    rewrite O. split; [reflexivity|]. split; [cbn; lia|]. split; [exact HR'|].
    rewrite set_nth_length in Hres, Hprog. split.
    + intros tid' Lt. rewrite (Hres tid' Lt). cbn [combine Concurrent.pick].
      rewrite ER. destruct (Nat.eqb tid tid') eqn:Q.
      * apply Nat.eqb_eq in Q. subst tid'. rewrite nth_set_nth_eq by lia. rewrite <- app_assoc. reflexivity.
      * apply Nat.eqb_neq in Q. rewrite nth_set_nth_neq by exact Q. reflexivity.
    + intros tid' Lt. cbn [combine Concurrent.pick]. pose proof (Hprog tid' Lt) as HP.
      destruct (Nat.eqb tid tid') eqn:Q.
      * apply Nat.eqb_eq in Q. subst tid'. rewrite nth_set_nth_eq in HP by lia.
        cbn [map fst app]. rewrite HP. symmetry. apply nth_error_nth. exact P.
      * apply Nat.eqb_neq in Q. rewrite nth_set_nth_neq in HP by exact Q. exact HP.
Qed.

Lemma rel_init l threads :
  step init (OpGet l) =
    (mk_world I 0 [] 1 [(0, lm_new I l)] [(l, 0)] [Some 0], OutMemo 0) /\
  Rel (c_init I E R l threads) (mk_world I 0 [] 1 [(0, lm_new I l)] [(l, 0)] [Some 0]).
Proof. split; [reflexivity|]. unfold Rel. cbn. auto. Qed.

Lemma nth_map_nil {A B} (l : list A) tid : nth tid (map (fun _ => @nil B) l) [] = [].
Proof. revert tid. induction l as [|x xs IHx]; intros [|tid]; cbn; auto. Qed.

(* C14_schedules, refinement part: any schedule = the sequential model run in the schedule's order *)
Lemma sched_refines l threads sched :
  let s := run_schedule l threads sched in
  let lin := linearize threads sched in
  exists rs, outputs init (seq_program l lin) = OutMemo 0 :: map OutRes rs /\ length rs = length lin /\
    Rel s (exec init (seq_program l lin)) /\
    (forall tid, tid < length threads -> nth tid (c_results I E R s) [] = pick tid (combine lin rs)) /\
    (forall tid, tid < length threads ->
       map fst (nth tid (c_results I E R s) []) ++ nth tid (c_progs I E R s) [] = nth tid threads []).
Proof.
  intros s lin. destruct (rel_init l threads) as [S0 R0].
  assert (length (c_results I E R (c_init I E R l threads)) = length (c_progs I E R (c_init I E R l threads))) as L0.
  { cbn. apply map_length. }
  destruct (sim sched _ _ R0 L0) as [rs [O [Lr [HR [Hres Hprog]]]]]. cbn [c_init c_progs c_results] in *.
  exists rs. unfold seq_program.
  rewrite (outputs_cons I E R construct callback), (exec_cons I E R construct callback), S0. cbn [fst snd].
  unfold lin. rewrite O. split; [reflexivity|]. split; [exact Lr|]. split; [exact HR|].
  assert (forall tid, tid < length threads -> nth tid (map (fun _ : list request => @nil (request * result R E)) threads) [] = []) as Hnil.
  { intros tid _. apply nth_map_nil. }
  split.
  - intros tid Lt. unfold s, Concurrent.run_schedule. rewrite (Hres tid Lt), (Hnil tid Lt). reflexivity.
  - intros tid Lt. unfold s, Concurrent.run_schedule. rewrite (Hres tid Lt), (Hnil tid Lt). cbn [app].
    apply Hprog. exact Lt.
Qed.

(* every request a schedule executes belongs to the program of the thread that executes it *)
Lemma linearize_in sched : forall progs tid rq,
  In (tid, rq) (linearize progs sched) -> In rq (nth tid progs []).
Proof.
  induction sched as [|t sched IH]; intros progs tid rq Hin; cbn in Hin; [contradiction|].
  destruct (nth_error progs t) as [[|rq0 rest]|] eqn:P; try (apply IH; assumption).
  pose proof (nth_error_lt _ _ _ P) as Lt.
  destruct Hin as [Heq|Hin].
  - inversion Heq; subst. rewrite (nth_error_nth _ _ _ [] P). left. reflexivity.
  - apply IH in Hin. destruct (Nat.eq_dec t tid) as [->|N].
    + rewrite nth_set_nth_eq in Hin by exact Lt. rewrite (nth_error_nth _ _ _ [] P). right. exact Hin.
    + rewrite nth_set_nth_neq in Hin by exact N. exact Hin.
Qed.

Lemma succs_map0 k (tr : list cevent) : succs 0 k (map (pair 0) tr) = map (pair 0) (filter (c_is_succ k) tr).
Proof.
  induction tr as [|e tr IH]; [reflexivity|]. cbn [map filter]. rewrite succs_cons. unfold is_succ at 1.
  cbn [fst snd Nat.eqb andb]. unfold c_is_succ at 1. destruct (key_eqb (ev_key e) k && ev_ok e); cbn [map]; rewrite IH; reflexivity.
Qed.

Lemma inv_w0 l : Inv (mk_world I 0 [] 1 [(0, lm_new I l)] [(l, 0)] [Some 0]).
Proof.
  pose proof (step_inv I E R construct callback init (OpGet l) _ _ (inv_init I E construct)
               (proj1 (rel_init l []))) as H. exact H.
Qed.

Lemma exec_seq_program l lin :
  exec init (seq_program l lin) = exec (mk_world I 0 [] 1 [(0, lm_new I l)] [(l, 0)] [Some 0]) (map op_of lin).
Proof. unfold seq_program. rewrite (exec_cons I E R construct callback), (proj1 (rel_init l [])). reflexivity. Qed.

Lemma sched_once l threads sched k :
  length (filter (c_is_succ k) (c_trace I E R (run_schedule l threads sched))) <= 1.
Proof.
  destruct (sched_refines l threads sched) as [rs [_ [_ [[_ [_ [_ HT]]] _]]]].
  pose proof (once_inv I E construct _ (reachable_inv I E R construct callback
               (seq_program l (linearize threads sched))) 0 k) as L.
  rewrite HT, succs_map0, map_length in L. exact L.
Qed.

Lemma in_pick tid rq r (xs : list ((nat * request) * result R E)) :
  In (rq, r) (pick tid xs) -> In ((tid, rq), r) xs.
Proof.
  induction xs as [|[[t q] x] xs IH]; cbn; [auto|]. destruct (Nat.eqb t tid) eqn:Q.
  - apply Nat.eqb_eq in Q. subst t. intros [Heq|Hin]; [left; congruence|right; auto].
  - intros Hin. right. auto.
Qed.

Lemma in_combine_map {A B C D} (f : A -> C) (g : B -> D) (l1 : list A) (l2 : list B) a b :
  In (a, b) (combine l1 l2) -> In (f a, g b) (combine (map f l1) (map g l2)).
Proof.
  revert l2. induction l1 as [|x l1 IH]; intros [|y l2]; cbn; try contradiction.
  intros [Heq|Hin]; [left; congruence|right; auto].
Qed.

Lemma sched_same_inst l threads sched tid t a cb r :
  tid < length threads ->
  In ((t, a, cb), Ok r) (nth tid (c_results I E R (run_schedule l threads sched)) []) ->
  exists e i, filter (c_is_succ (t, a)) (c_trace I E R (run_schedule l threads sched)) = [e] /\
              ev_lang e = l /\ construct l t a (ev_n e) = Ok i /\ r = callback cb i.
Proof.
  intros Lt Hin.
  destruct (sched_refines l threads sched) as [rs [O [Lr [[_ [_ [_ HT]]] [Hres _]]]]].
  rewrite (Hres tid Lt) in Hin. apply in_pick in Hin.
  apply (in_combine_map op_of (@OutRes E R)) in Hin. cbn [op_of] in Hin.
  set (lin := linearize threads sched) in *.
  set (w0 := mk_world I 0 [] 1 [(0, lm_new I l)] [(l, 0)] [Some 0]).
  assert (outputs w0 (map op_of lin) = map OutRes rs) as O'.
  { unfold seq_program in O. rewrite (outputs_cons I E R construct callback), (proj1 (rel_init l [])) in O.
    cbn [fst snd] in O. inversion O. reflexivity. }
  rewrite <- O' in Hin.
  destruct (same_inst_run I E R construct callback _ _ (inv_w0 l) _ _ _ _ _ Hin) as [m [e [i [S1 [S2 S3]]]]].
  rewrite <- exec_seq_program in S1. fold lin in HT.
  assert (In (m, e) (w_trace I (exec init (seq_program l lin)))) as Hme.
  { assert (In (m, e) (succs m (t, a) (w_trace I (exec init (seq_program l lin))))) as H0
      by (rewrite S1; left; reflexivity).
    apply filter_In in H0. tauto. }
  assert (m = 0) as M0.
  { rewrite HT in Hme. apply in_map_iff in Hme. destruct Hme as [x [Hx _]]. congruence. }
  subst m. rewrite HT, succs_map0 in S1.
  destruct (filter (c_is_succ (t, a)) (c_trace I E R (run_schedule l threads sched))) as [|e0 [|e1 tl]] eqn:F;
    cbn in S1; try discriminate. inversion S1; subst e0.
  assert (ev_lang e = l) as HLang.
  { destruct (trace_origin I E R construct callback _ _ Hme) as [_ [_ [_ [_ [_ [_ [_ ML]]]]]]].
    cbn [fst snd] in ML. rewrite exec_seq_program in ML.
    assert (memo_lang I w0 0 = Some l) as M0 by reflexivity.
    pose proof (lang_stable_exec I E R construct callback w0 (map op_of lin) 0 l (inv_w0 l) M0) as M1.
    fold w0 in ML. congruence. }
  exists e, i. split; [reflexivity|]. split; [exact HLang|]. split; [rewrite <- HLang; exact S2|exact S3].
Qed.

Lemma in_map_op_of lin h t a cb : In (OpWith h t a cb) (map op_of lin) -> exists tid, In (tid, (t, a, cb)) lin.
Proof.
  intros Hin. apply in_map_iff in Hin. destruct Hin as [[tid [[t' a'] cb']] [Heq Hin]].
  cbn in Heq. inversion Heq; subst. eauto.
Qed.

Lemma sched_args_lang l threads sched e :
  In e (c_trace I E R (run_schedule l threads sched)) ->
  ev_lang e = l /\ ev_n e < c_counter I E R (run_schedule l threads sched) /\
  exists tid cb, In (ev_type e, ev_args e, cb) (nth tid threads []).
Proof.
  intros Hin.
  destruct (sched_refines l threads sched) as [rs [_ [_ [[_ [_ [HC HT]]] _]]]].
  set (lin := linearize threads sched) in *.
  assert (In (0, e) (w_trace I (exec init (seq_program l lin)))) as Hme.
  { rewrite HT. apply in_map. exact Hin. }
  destruct (trace_origin I E R construct callback _ _ Hme) as [pre [h [cb [post [EO [_ [_ ML]]]]]]].
  cbn [fst snd] in *. split; [|split].
  - rewrite exec_seq_program in ML.
    set (w0 := mk_world I 0 [] 1 [(0, lm_new I l)] [(l, 0)] [Some 0]) in *.
    assert (memo_lang I w0 0 = Some l) as M0 by reflexivity.
    pose proof (lang_stable_exec I E R construct callback w0 (map op_of lin) 0 l (inv_w0 l) M0) as M1.
    congruence.
  - rewrite <- HC.
    destruct (inv_trace I E construct _ (reachable_inv I E R construct callback (seq_program l lin)) _ _ Hme) as [Hn _].
    exact Hn.
  - assert (In (OpWith h (ev_type e) (ev_args e) cb) (seq_program l lin)) as Hop.
    { rewrite EO. apply in_or_app. right. left. reflexivity. }
    unfold seq_program in Hop. destruct Hop as [Hd|Hop]; [discriminate|].
    apply in_map_op_of in Hop. destruct Hop as [tid Htid]. exists tid, cb.
    eapply linearize_in. exact Htid.
Qed.

Lemma sched_err l threads sched tid t a cb er :
  tid < length threads ->
  In ((t, a, cb), Err er) (nth tid (c_results I E R (run_schedule l threads sched)) []) ->
  exists e, In e (c_trace I E R (run_schedule l threads sched)) /\ ev_key e = (t, a) /\ ev_ok e = false /\
            construct l t a (ev_n e) = Err er.
Proof.
  intros Lt Hin.
  destruct (sched_refines l threads sched) as [rs [O [Lr [[_ [_ [_ HT]]] [Hres _]]]]].
  rewrite (Hres tid Lt) in Hin. apply in_pick in Hin.
  apply (in_combine_map op_of (@OutRes E R)) in Hin. cbn [op_of] in Hin.
  set (lin := linearize threads sched) in *.
  set (w0 := mk_world I 0 [] 1 [(0, lm_new I l)] [(l, 0)] [Some 0]).
  assert (outputs w0 (map op_of lin) = map OutRes rs) as O'.
  { unfold seq_program in O. rewrite (outputs_cons I E R construct callback), (proj1 (rel_init l [])) in O.
    cbn [fst snd] in O. inversion O. reflexivity. }
  rewrite <- O' in Hin.
  destruct (err_run I E R construct callback _ _ _ _ _ _ _ Hin) as [m [e [Hme [K [F C]]]]].
  unfold w0 in Hme. rewrite <- exec_seq_program in Hme.
  pose proof Hme as Hme2. rewrite HT in Hme2. apply in_map_iff in Hme2. destruct Hme2 as [x [Hx Hxin]].
  inversion Hx; subst x m.
  destruct (sched_args_lang l threads sched e Hxin) as [HLang _].
  exists e. split; [exact Hxin|]. split; [exact K|]. split; [exact F|]. rewrite <- HLang. exact C.
Qed.

(* a schedule that runs every thread to completion executes every program entirely *)
Lemma sched_complete l threads sched tid :
  finished I E R (run_schedule l threads sched) = true -> tid < length threads ->
  map fst (nth tid (c_results I E R (run_schedule l threads sched)) []) = nth tid threads [].
Proof.
  intros Hf Lt. destruct (sched_refines l threads sched) as [rs [_ [_ [_ [_ Hprog]]]]].
  rewrite <- (Hprog tid Lt). unfold finished in Hf. rewrite forallb_forall in Hf.
  destruct (nth_in_or_default tid (c_progs I E R (run_schedule l threads sched)) []) as [Hin|Hd].
  - apply Hf in Hin. destruct (nth tid (c_progs I E R (run_schedule l threads sched)) []); [|discriminate].
    rewrite app_nil_r. reflexivity.
  - rewrite Hd, app_nil_r. reflexivity.
Qed.

End ConcProofs.

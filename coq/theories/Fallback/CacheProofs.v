(* Fallback/CacheProofs.v — invariants of the Cache / AsyncCache transition systems (property C17). *)
From Coq Require Import Lia Arith List Bool.
Import ListNotations.
From FluentV Require Import Base.Outcome Fallback.Cache.

(* ------------------------------------------------------------------------------------------ *)
(* lists                                                                                       *)

Lemma upd_length {X} n (f : X -> X) l : length (upd n f l) = length l.
Proof. revert n; induction l as [|x r IH]; intros [|n]; cbn; auto. Qed.

Lemma nth_error_upd {X} n (f : X -> X) l m :
  nth_error (upd n f l) m = if Nat.eqb n m then option_map f (nth_error l m) else nth_error l m.
Proof.
  revert n m; induction l as [|x r IH]; intros n m.
  - destruct n, m; cbn; try reflexivity; destruct (Nat.eqb _ _); reflexivity.
  - destruct n as [|n], m as [|m]; cbn; try reflexivity. apply IH.
Qed.

Lemma nth_error_upd_same {X} n (f : X -> X) l : nth_error (upd n f l) n = option_map f (nth_error l n).
Proof. rewrite nth_error_upd, Nat.eqb_refl; reflexivity. Qed.

Lemma nth_error_upd_other {X} n (f : X -> X) l m : n <> m -> nth_error (upd n f l) m = nth_error l m.
Proof. intros H; rewrite nth_error_upd. apply Nat.eqb_neq in H; rewrite H; reflexivity. Qed.

Lemma sumf_upd {X} (g : X -> nat) n f l a :
  nth_error l n = Some a -> sumf g (upd n f l) + g a = sumf g l + g (f a).
Proof.
  revert n; induction l as [|x r IH]; intros [|n] H; cbn in *; try discriminate.
  - injection H as ->. lia.
  - specialize (IH _ H). unfold sumf in IH. lia.
Qed.

Lemma upd_none {X} n (f : X -> X) l : nth_error l n = None -> upd n f l = l.
Proof.
  revert n; induction l as [|x r IH]; intros [|n] H; cbn in *; try discriminate; auto.
  rewrite IH; auto.
Qed.

Lemma sumf_upd_indep {X} (g : X -> nat) n f l : (forall a, g (f a) = g a) -> sumf g (upd n f l) = sumf g l.
Proof.
  intros Hg. destruct (nth_error l n) as [a|] eqn:E.
  - pose proof (sumf_upd g n f l a E) as H. rewrite Hg in H. lia.
  - rewrite (upd_none n f l E); reflexivity.
Qed.

Lemma sumf_upd_le {X} (g : X -> nat) n f l d : (forall a, g (f a) <= g a + d) -> sumf g (upd n f l) <= sumf g l + d.
Proof.
  intros Hg. destruct (nth_error l n) as [a|] eqn:E.
  - pose proof (sumf_upd g n f l a E) as H. specialize (Hg a). lia.
  - rewrite (upd_none n f l E); lia.
Qed.

Lemma sumf_pointwise {X} (g g' : X -> nat) d l l' :
  Forall2 (fun a b => g' b <= g a + d) l l' -> sumf g' l' <= sumf g l + d * length l.
Proof. induction 1; cbn; [lia|]. unfold sumf in *. lia. Qed.

Lemma Forall2_nth {X} (R : X -> X -> Prop) l l' :
  length l = length l' ->
  (forall i a b, nth_error l i = Some a -> nth_error l' i = Some b -> R a b) -> Forall2 R l l'.
Proof.
  revert l'; induction l as [|x r IH]; intros [|y r'] HL H; cbn in *; try discriminate; constructor.
  - apply (H 0); reflexivity.
  - apply IH; [lia|]. intros i a b Ha Hb. apply (H (S i)); assumption.
Qed.

Lemma sumf_filter {X} (p : X -> bool) l : sumf (fun k => if p k then 1 else 0) l = length (filter p l).
Proof. induction l as [|x r IH]; cbn; auto. unfold sumf in IH. destruct (p x); cbn; lia. Qed.

Lemma firstn_S_nth {X} (l : list X) n x : nth_error l n = Some x -> firstn (S n) l = firstn n l ++ [x].
Proof.
  revert n; induction l as [|y r IH]; intros [|n] H; cbn in *; try discriminate.
  - injection H as ->; reflexivity.
  - f_equal. apply IH, H.
Qed.

Lemma firstn_app_le {X} (l r : list X) n : n <= length l -> firstn n (l ++ r) = firstn n l.
Proof. intros H. rewrite firstn_app. replace (n - length l) with 0 by lia. cbn. apply app_nil_r. Qed.

Lemma forallb_false_nth {X} (p : X -> bool) l : forallb p l = false -> exists i x, nth_error l i = Some x /\ p x = false.
Proof.
  induction l as [|y r IH]; cbn; [discriminate|]. destruct (p y) eqn:E; cbn; intros H.
  - destruct (IH H) as (i & x & Hi & Hx). exists (S i), x; auto.
  - exists 0, y; auto.
Qed.

Lemma forallb_true_nth {X} (p : X -> bool) l i x : forallb p l = true -> nth_error l i = Some x -> p x = true.
Proof.
  intros H Hi. rewrite forallb_forall in H. apply H. eapply nth_error_In, Hi.
Qed.

Lemma nth_error_repeat {X} (x : X) n i y : nth_error (repeat x n) i = Some y -> y = x.
Proof. intros H. apply nth_error_In in H. apply repeat_spec in H. exact H. Qed.

Lemma find_idx_some {X} (p : X -> bool) l i0 c : find_idx p l i0 = Some c -> exists x, nth_error l (c - i0) = Some x /\ p x = true /\ i0 <= c.
Proof.
  revert i0; induction l as [|y r IH]; cbn; intros i0 H; [discriminate|].
  destruct (p y) eqn:E.
  - injection H as <-. exists y. rewrite Nat.sub_diag. auto.
  - destruct (IH _ H) as (x & Hx & Hp & Hle). exists x. replace (c - i0) with (S (c - S i0)) by lia. cbn. repeat split; auto; lia.
Qed.

Lemma find_idx_none {X} (p : X -> bool) l i0 : find_idx p l i0 = None -> forall i x, nth_error l i = Some x -> p x = false.
Proof.
  revert i0; induction l as [|y r IH]; cbn; intros i0 H i x Hi; [destruct i; discriminate|].
  destruct (p y) eqn:E; [discriminate|]. destruct i; cbn in Hi; [injection Hi as <-; auto|]. eapply IH; eauto.
Qed.

Section Proofs.
Variable A : Type.
Notation consumer := (consumer A).
Notation astate := (astate A).
Notation cache := (cache A).

(* ------------------------------------------------------------------------------------------ *)
(* wake / wake_all only touch the `woken` flag                                                 *)

Definition wake_if (b : bool) (k : consumer) : consumer := if b then set_woken true k else k.

Lemma wake_all_cons w ws (l : list consumer) : wake_all (w :: ws) l = wake_all ws (wake w l).
Proof. reflexivity. Qed.

Lemma wake_all_nth ws (l : list consumer) m :
  nth_error (wake_all ws l) m = option_map (wake_if (existsb (Nat.eqb m) ws)) (nth_error l m).
Proof.
  revert l; induction ws as [|w ws IH]; intros l.
  - cbn. destruct (nth_error l m); reflexivity.
  - rewrite wake_all_cons, IH. cbn [existsb]. unfold wake. rewrite nth_error_upd. rewrite (Nat.eqb_sym m w).
    destruct (Nat.eqb w m); cbn.
    + destruct (nth_error l m) as [k|]; cbn; auto. destruct (existsb _ ws); reflexivity.
    + reflexivity.
Qed.

Lemma wake_all_length ws (l : list consumer) : length (wake_all ws l) = length l.
Proof. revert l; induction ws as [|w ws IH]; intros l; [reflexivity|]. rewrite wake_all_cons, IH. apply upd_length. Qed.

Lemma existsb_eqb_In m ws : existsb (Nat.eqb m) ws = true <-> In m ws.
Proof.
  rewrite existsb_exists. split.
  - intros (x & Hx & E). apply Nat.eqb_eq in E. subst; auto.
  - intros H. exists m. split; auto. apply Nat.eqb_refl.
Qed.

Lemma wake_if_curr b k : curr (wake_if b k) = curr k. Proof. destruct b; reflexivity. Qed.
Lemma wake_if_blocked b k : blocked (wake_if b k) = blocked k. Proof. destruct b; reflexivity. Qed.
Lemma wake_if_fin b k : fin (wake_if b k) = fin k. Proof. destruct b; reflexivity. Qed.
Lemma wake_if_seen b k : seen (wake_if b k) = seen k. Proof. destruct b; reflexivity. Qed.
Lemma wake_if_woken b k : woken (wake_if b k) = b || woken k. Proof. destruct b; reflexivity. Qed.

Lemma sumf_wake_all_indep (g : consumer -> nat) ws l :
  (forall k, g (set_woken true k) = g k) -> sumf g (wake_all ws l) = sumf g l.
Proof.
  intros Hg. revert l; induction ws as [|w ws IH]; intros l; [reflexivity|].
  rewrite wake_all_cons, IH. unfold wake. apply sumf_upd_indep, Hg.
Qed.

(* ------------------------------------------------------------------------------------------ *)
(* poll_next by cases                                                                          *)

Lemma poll_next_eq (s : astate) c k : nth_error (cons s) c = Some k ->
  poll_next s c =
  match Nat.compare (curr k) (length (items s)) with
  | Lt => (set_cons (upd c (fun k' => deliver (nth_error (items s) (curr k)) (set_curr (S (curr k)) k')) (cons s)) s,
           Ready (nth_error (items s) (curr k)))
  | Eq =>
      match src s with
      | SReady x :: r =>
          (mkA r (waiting s) (items s ++ [x]) []
               (upd c (fun k' => deliver (Some x) (set_curr (S (curr k)) k')) (wake_all (pending_wakes s) (cons s)))
               (S (n_polls s)) (S (n_some s)) (n_none s) (pulled s ++ [x]), Ready (Some x))
      | SPending :: r =>
          (mkA (src s) (Some c) (items s) (pending_wakes s ++ [c]) (upd c (set_blocked true) (cons s))
               (S (n_polls s)) (n_some s) (n_none s) (pulled s), Pending)
      | [] =>
          (mkA [] (waiting s) (items s) []
               (upd c (fun k' => deliver None (set_curr (S (curr k)) k')) (wake_all (pending_wakes s) (cons s)))
               (S (n_polls s)) (n_some s) (S (n_none s)) (pulled s), Ready None)
      end
  | Gt => (set_cons (upd c (deliver None) (cons s)) s, Ready None)
  end.
Proof.
  intros Hk. unfold poll_next. rewrite Hk.
  destruct (Nat.compare (curr k) (length (items s))).
  - unfold poll_next_item, source_poll_next. destruct (src s) as [|[x|] r]; reflexivity.
  - cbn [Nat.sub]. rewrite Nat.sub_0_r. reflexivity.
  - reflexivity.
Qed.

Lemma poll_next_nohandle (s : astate) c : nth_error (cons s) c = None -> poll_next s c = (s, Pending).
Proof. intros H. unfold poll_next. rewrite H. reflexivity. Qed.

(* ------------------------------------------------------------------------------------------ *)
(* per-consumer invariant (shared by the synchronous and the asynchronous cache)               *)

Definition cons_ok (its : list A) (srcnil : Prop) (k : consumer) : Prop :=
  (fin k = false -> curr k <= length its /\ seen k = firstn (curr k) its) /\
  (fin k = true -> curr k = S (length its) /\ seen k = its /\ srcnil /\ blocked k = false).

Definition fin_ind (k : consumer) : nat := if fin k then 1 else 0.

Lemma cons_ok_new its P : cons_ok its P new_consumer.
Proof. split; cbn; [intros _; split; [lia|reflexivity] | discriminate]. Qed.

Lemma cons_ok_not_fin_lt its P k : cons_ok its P k -> curr k <= length its -> fin k = false.
Proof. intros [_ H2] Hle. destruct (fin k); auto. destruct (H2 eq_refl) as (E & _). lia. Qed.

Lemma cons_ok_gt_fin its P k : cons_ok its P k -> length its < curr k -> fin k = true.
Proof. intros [H1 _] Hlt. destruct (fin k); auto. destruct (H1 eq_refl) as (E & _). lia. Qed.

(* flags that the invariant does not look at *)
Lemma cons_ok_set_woken its P b k : cons_ok its P k -> cons_ok its P (set_woken b k).
Proof. intros H; exact H. Qed.

Lemma cons_ok_wake_if its P b k : cons_ok its P k -> cons_ok its P (wake_if b k).
Proof. destruct b; auto. Qed.

Lemma cons_ok_set_blocked its P k : cons_ok its P k -> fin k = false -> cons_ok its P (set_blocked true k).
Proof. intros [H1 H2] Hf. split; cbn; auto. rewrite Hf; discriminate. Qed.

(* Lt: a cached value *)
Lemma cons_ok_cached its P k c0 : cons_ok its P k -> c0 = curr k -> curr k < length its ->
  exists x, nth_error its (curr k) = Some x /\
            cons_ok its P (deliver (nth_error its c0) (set_curr (S c0) k)).
Proof.
  intros Hok -> Hlt. destruct (nth_error its (curr k)) as [x|] eqn:E.
  2:{ apply nth_error_None in E. lia. }
  exists x. split; auto.
  pose proof (cons_ok_not_fin_lt _ _ _ Hok ltac:(lia)) as Hf.
  destruct Hok as [H1 _]. destruct (H1 Hf) as (_ & Hs).
  split; cbn; rewrite Hf; [intros _|discriminate].
  split; [lia|]. rewrite Hs. symmetry. apply firstn_S_nth, E.
Qed.

(* Eq, the source yields x: the puller *)
Lemma cons_ok_pull_self its P P' k x c0 : cons_ok its P k -> curr k = c0 -> curr k = length its ->
  cons_ok (its ++ [x]) P' (deliver (Some x) (set_curr (S c0) k)).
Proof.
  intros Hok <- He. pose proof (cons_ok_not_fin_lt _ _ _ Hok ltac:(lia)) as Hf.
  destruct Hok as [H1 _]. destruct (H1 Hf) as (_ & Hs).
  unfold cons_ok, deliver, set_curr; cbn [curr fin seen blocked woken].
  rewrite Hf. split; [intros _|discriminate].
  rewrite app_length; cbn [length]. split; [lia|].
  rewrite Hs, He, firstn_all.
  replace (S (length its)) with (length (its ++ [x])) by (rewrite app_length; cbn; lia).
  rewrite firstn_all. reflexivity.
Qed.

(* Eq, the source yields x: everybody else (the source was not exhausted, so nobody is finished) *)
Lemma cons_ok_pull_other its (P P' : Prop) k x : cons_ok its P k -> ~ P -> cons_ok (its ++ [x]) P' k.
Proof.
  intros [H1 H2] HnP. destruct (fin k) eqn:Hf.
  - destruct (H2 eq_refl) as (_ & _ & HP & _). contradiction.
  - destruct (H1 eq_refl) as (Hle & Hs). unfold cons_ok. rewrite Hf. split; [intros _|discriminate].
    rewrite app_length; cbn [length]. split; [lia|]. rewrite firstn_app_le; auto.
Qed.

(* Eq, the source is exhausted: the consumer is told None *)
Lemma cons_ok_end_self its (P : Prop) k c0 : cons_ok its P k -> curr k = c0 -> curr k = length its -> P ->
  cons_ok its P (deliver None (set_curr (S c0) k)).
Proof.
  intros Hok <- He HP. pose proof (cons_ok_not_fin_lt _ _ _ Hok ltac:(lia)) as Hf.
  destruct Hok as [H1 _]. destruct (H1 Hf) as (_ & Hs).
  split; cbn; [discriminate|intros _].
  repeat split; auto. rewrite Hs, He. apply firstn_all.
Qed.

(* Gt: ran off the end *)
Lemma cons_ok_gt its P k : cons_ok its P k -> length its < curr k -> cons_ok its P (deliver None k) /\ fin k = true.
Proof.
  intros Hok Hlt. pose proof (cons_ok_gt_fin _ _ _ Hok Hlt) as Hf. split; auto.
  destruct Hok as [_ H2]. destruct (H2 Hf) as (E & Hs & HP & _).
  split; cbn; [discriminate|intros _]. auto.
Qed.

Lemma cons_ok_weaken_src its (P P' : Prop) k : cons_ok its P k -> (P -> P') -> cons_ok its P' k.
Proof. intros [H1 H2] HPP. split; auto. intros Hf. destruct (H2 Hf) as (a & b & c & d). auto. Qed.

(* ------------------------------------------------------------------------------------------ *)
(* entries of the consumer list after an update                                                *)

Definition entry_after (c : nat) (f : consumer -> consumer) (ws : list nat) (c' : nat) (k0 : consumer) : consumer :=
  if Nat.eqb c c' then f (wake_if (existsb (Nat.eqb c') ws) k0) else wake_if (existsb (Nat.eqb c') ws) k0.

Lemma nth_upd_wake c f ws (l : list consumer) c' :
  nth_error (upd c f (wake_all ws l)) c' = option_map (entry_after c f ws c') (nth_error l c').
Proof.
  rewrite nth_error_upd, wake_all_nth. unfold entry_after.
  destruct (Nat.eqb c c'); destruct (nth_error l c'); reflexivity.
Qed.

Lemma nth_upd_plain c f (l : list consumer) c' :
  nth_error (upd c f l) c' = option_map (entry_after c f [] c') (nth_error l c').
Proof. change l with (wake_all [] l) at 1. apply nth_upd_wake. Qed.

Lemma option_map_some {X Y} (f : X -> Y) o y : option_map f o = Some y -> exists x, o = Some x /\ y = f x.
Proof. destruct o; cbn; [intros [= <-]; eauto | discriminate]. Qed.

Lemma front_mono (l l' : list consumer) n :
  (exists c k, nth_error l c = Some k /\ n <= curr k) ->
  (forall c k, nth_error l c = Some k -> exists k', nth_error l' c = Some k' /\ curr k <= curr k') ->
  exists c k, nth_error l' c = Some k /\ n <= curr k.
Proof.
  intros (c & k & Hk & Hn) H. destruct (H _ _ Hk) as (k' & Hk' & Hle). exists c, k'. split; auto. lia.
Qed.

Lemma sumf_repeat_new n : sumf fin_ind (repeat (@new_consumer A) n) = 0.
Proof. induction n; cbn; auto. Qed.

(* ------------------------------------------------------------------------------------------ *)
(* the data invariant of the asynchronous cache                                                *)

Record data_inv (script : list (sstep A)) (s : astate) : Prop := {
  di_prefix : src_items script = items s ++ src_items (src s);
  di_pulled : pulled s = items s;
  di_some : n_some s = length (items s);
  di_none : n_none s = sumf fin_ind (cons s);
  di_cons : forall c k, nth_error (cons s) c = Some k -> cons_ok (items s) (src s = []) k;
  di_front : items s <> [] -> exists c k, nth_error (cons s) c = Some k /\ length (items s) <= curr k
}.

Ltac simpl_st :=
  unfold clear_woken, set_cons, set_items, set_pending_wakes;
  cbn [src waiting items pending_wakes cons n_polls n_some n_none pulled fst snd].

Lemma data_inv_init script n : data_inv script (init script n).
Proof.
  constructor; cbn; auto.
  - symmetry; apply sumf_repeat_new.
  - intros c k H. apply nth_error_repeat in H. subst. apply cons_ok_new.
  - intros H; contradiction.
Qed.

Lemma fin_ind_deliver_none k : fin_ind (deliver None k) = 1. Proof. reflexivity. Qed.
Lemma fin_ind_deliver_some x k : fin_ind (deliver (Some x) k) = fin_ind k. Proof. reflexivity. Qed.
Lemma fin_ind_set_curr n k : fin_ind (set_curr n k) = fin_ind k. Proof. reflexivity. Qed.
Lemma fin_ind_false k : fin k = false -> fin_ind k = 0. Proof. unfold fin_ind; intros ->; reflexivity. Qed.
Lemma fin_ind_true k : fin k = true -> fin_ind k = 1. Proof. unfold fin_ind; intros ->; reflexivity. Qed.
Lemma fin_ind_set_woken b k : fin_ind (set_woken b k) = fin_ind k. Proof. reflexivity. Qed.
Lemma fin_ind_wake_if b k : fin_ind (wake_if b k) = fin_ind k. Proof. destruct b; reflexivity. Qed.

Lemma data_inv_clear script s c : data_inv script s -> data_inv script (clear_woken c s).
Proof.
  intros [H1 H2 H3 H4 H5 H6]. constructor; simpl_st; auto.
  - rewrite sumf_upd_indep; auto.
  - intros c' k' Hk'. rewrite nth_upd_plain in Hk'. apply option_map_some in Hk' as (k0 & Hk0 & ->).
    specialize (H5 _ _ Hk0). unfold entry_after. cbn. destruct (Nat.eqb c c'); auto.
  - intros Hne. eapply front_mono; [apply H6, Hne|].
    intros c' k0 Hk0. rewrite nth_upd_plain, Hk0. cbn. eexists; split; [reflexivity|].
    unfold entry_after. cbn. destruct (Nat.eqb c c'); cbn; lia.
Qed.

Lemma data_inv_source_ready script s : data_inv script s -> data_inv script (source_ready s).
Proof.
  intros [H1 H2 H3 H4 H5 H6]. unfold source_ready.
  destruct (waiting s) as [w|]; [|constructor; auto].
  destruct (src s) as [|[x|] r] eqn:Hsrc; try (constructor; auto; rewrite Hsrc; auto).
  constructor; simpl_st; auto.
  - unfold wake. rewrite sumf_upd_indep; auto.
  - intros c' k' Hk'. unfold wake in Hk'. rewrite nth_upd_plain in Hk'. apply option_map_some in Hk' as (k0 & Hk0 & ->).
    specialize (H5 _ _ Hk0). apply cons_ok_weaken_src with (P := SPending :: r = []); [|discriminate].
    unfold entry_after. cbn. destruct (Nat.eqb w c'); auto.
  - intros Hne. eapply front_mono; [apply H6, Hne|].
    intros c' k0 Hk0. unfold wake. rewrite nth_upd_plain, Hk0. cbn. eexists; split; [reflexivity|].
    unfold entry_after. cbn. destruct (Nat.eqb w c'); cbn; lia.
Qed.

Lemma data_inv_poll script s c : data_inv script s -> data_inv script (fst (poll_next s c)).
Proof.
  intros [H1 H2 H3 H4 H5 H6].
  destruct (nth_error (cons s) c) as [k|] eqn:Hk.
  2:{ rewrite poll_next_nohandle; auto. constructor; auto. }
  rewrite (poll_next_eq _ _ _ Hk). pose proof (H5 _ _ Hk) as Hok.
  destruct (Nat.compare_spec (curr k) (length (items s))) as [He|Hlt|Hgt].
  - (* Eq: the source is asked *)
    destruct (src s) as [|[x|] r] eqn:Hsrc; cbn [fst].
    + (* end of the source *)
      pose proof (cons_ok_not_fin_lt _ _ _ Hok ltac:(lia)) as Hf.
      constructor; simpl_st; auto.
      * pose proof (sumf_upd fin_ind c (fun k' => deliver None (set_curr (S (curr k)) k')) (wake_all (pending_wakes s) (cons s))
                      (wake_if (existsb (Nat.eqb c) (pending_wakes s)) k)) as E.
        rewrite wake_all_nth, Hk in E. specialize (E eq_refl).
        rewrite sumf_wake_all_indep in E by reflexivity.
        cbv beta in E. rewrite fin_ind_deliver_none, fin_ind_wake_if, (fin_ind_false _ Hf) in E. lia.
      * intros c' k' Hk'. rewrite nth_upd_wake in Hk'. apply option_map_some in Hk' as (k0 & Hk0 & ->).
        unfold entry_after. destruct (Nat.eqb_spec c c') as [<-|Hne].
        -- rewrite Hk in Hk0. injection Hk0 as <-.
           apply cons_ok_end_self; rewrite ?wake_if_curr; auto. apply cons_ok_wake_if; auto.
        -- apply cons_ok_wake_if. apply (H5 _ _ Hk0).
      * intros Hne. eapply front_mono; [apply H6, Hne|].
        intros c' k0 Hk0. rewrite nth_upd_wake, Hk0. cbn. eexists; split; [reflexivity|].
        unfold entry_after. destruct (Nat.eqb_spec c c') as [<-|Hne']; cbn; rewrite ?wake_if_curr; try lia.
        rewrite Hk in Hk0. injection Hk0 as <-. lia.
    + (* the source yields x *)
      pose proof (cons_ok_not_fin_lt _ _ _ Hok ltac:(lia)) as Hf.
      constructor; simpl_st.
      * rewrite H1. cbn. rewrite <- app_assoc. reflexivity.
      * rewrite H2; reflexivity.
      * rewrite app_length; cbn; lia.
      * pose proof (sumf_upd fin_ind c (fun k' => deliver (Some x) (set_curr (S (curr k)) k')) (wake_all (pending_wakes s) (cons s))
                      (wake_if (existsb (Nat.eqb c) (pending_wakes s)) k)) as E.
        rewrite wake_all_nth, Hk in E. specialize (E eq_refl).
        rewrite sumf_wake_all_indep in E by reflexivity.
        cbv beta in E. rewrite fin_ind_deliver_some, fin_ind_set_curr in E. lia.
      * intros c' k' Hk'. rewrite nth_upd_wake in Hk'. apply option_map_some in Hk' as (k0 & Hk0 & ->).
        unfold entry_after. destruct (Nat.eqb_spec c c') as [<-|Hne].
        -- rewrite Hk in Hk0. injection Hk0 as <-.
           eapply cons_ok_pull_self; rewrite ?wake_if_curr; auto. apply cons_ok_wake_if; eauto.
        -- apply cons_ok_wake_if. eapply cons_ok_pull_other; [apply (H5 _ _ Hk0)|discriminate].
      * intros _. exists c. rewrite nth_upd_wake, Hk. cbn. eexists; split; [reflexivity|].
        unfold entry_after. rewrite Nat.eqb_refl. cbn. rewrite app_length; cbn. lia.
    + (* the source is pending *)
      pose proof (cons_ok_not_fin_lt _ _ _ Hok ltac:(lia)) as Hf.
      constructor; simpl_st; auto.
      * rewrite sumf_upd_indep; auto.
      * intros c' k' Hk'. rewrite nth_upd_plain in Hk'. apply option_map_some in Hk' as (k0 & Hk0 & ->).
        unfold entry_after. cbn [existsb wake_if]. destruct (Nat.eqb_spec c c') as [<-|Hne]; [|apply (H5 _ _ Hk0)].
        rewrite Hk in Hk0. injection Hk0 as <-. apply cons_ok_set_blocked; auto.
      * intros Hne. eapply front_mono; [apply H6, Hne|].
        intros c' k0 Hk0. rewrite nth_upd_plain, Hk0. cbn. eexists; split; [reflexivity|].
        unfold entry_after. destruct (Nat.eqb c c'); cbn; lia.
  - (* Lt: cached *)
    cbn [fst]. destruct (cons_ok_cached _ _ _ (curr k) Hok eq_refl Hlt) as (x & Hx & Hok').
    rewrite Hx in *.
    constructor; simpl_st; auto.
    + pose proof (sumf_upd fin_ind c (fun k' => deliver (Some x) (set_curr (S (curr k)) k')) (cons s) k Hk) as E.
      cbv beta in E. rewrite fin_ind_deliver_some, fin_ind_set_curr in E. lia.
    + intros c' k' Hk'. rewrite nth_upd_plain in Hk'. apply option_map_some in Hk' as (k0 & Hk0 & ->).
      unfold entry_after. cbn [existsb wake_if]. destruct (Nat.eqb_spec c c') as [<-|Hne]; [|apply (H5 _ _ Hk0)].
      rewrite Hk in Hk0. injection Hk0 as <-. exact Hok'.
    + intros Hne. eapply front_mono; [apply H6, Hne|].
      intros c' k0 Hk0. rewrite nth_upd_plain, Hk0. cbn. eexists; split; [reflexivity|].
      unfold entry_after. destruct (Nat.eqb_spec c c') as [<-|Hne']; cbn; try lia.
      rewrite Hk in Hk0. injection Hk0 as <-. cbn. lia.
  - (* Gt: ran off the end *)
    cbn [fst]. destruct (cons_ok_gt _ _ _ Hok Hgt) as (Hok' & Hf).
    constructor; simpl_st; auto.
    + pose proof (sumf_upd fin_ind c (deliver None) (cons s) k Hk) as E.
      rewrite fin_ind_deliver_none, (fin_ind_true _ Hf) in E. lia.
    + intros c' k' Hk'. rewrite nth_upd_plain in Hk'. apply option_map_some in Hk' as (k0 & Hk0 & ->).
      unfold entry_after. cbn [existsb wake_if]. destruct (Nat.eqb_spec c c') as [<-|Hne]; [|apply (H5 _ _ Hk0)].
      rewrite Hk in Hk0. injection Hk0 as <-. exact Hok'.
    + intros Hne. eapply front_mono; [apply H6, Hne|].
      intros c' k0 Hk0. rewrite nth_upd_plain, Hk0. cbn. eexists; split; [reflexivity|].
      unfold entry_after. destruct (Nat.eqb c c'); cbn; lia.
Qed.

(* ------------------------------------------------------------------------------------------ *)
(* the wake-up invariant.  `ex = Some c`: consumer c is being polled right now (its wake-up has *)
(* been consumed and poll_next has not run yet), so it is exempt and counts as a rescuer.        *)

Definition rescuer (ex : option nat) (s : astate) : Prop :=
  (exists w, waiting s = Some w) \/
  (exists w k, nth_error (cons s) w = Some k /\ woken k = true /\ fin k = false /\ curr k = length (items s)) \/
  (exists w k, ex = Some w /\ nth_error (cons s) w = Some k /\ fin k = false /\ curr k = length (items s)).

Record wake_inv (ex : option nat) (s : astate) : Prop := {
  wi_blocked : forall c k, nth_error (cons s) c = Some k -> ex <> Some c -> blocked k = true -> woken k = false ->
       In c (pending_wakes s) /\ curr k = length (items s);
  wi_pw : pending_wakes s <> [] -> rescuer ex s;
  wi_waiting : forall w, waiting s = Some w ->
       (exists r, src s = SPending :: r) /\ (exists l, pending_wakes s = l ++ [w]) /\
       exists k, nth_error (cons s) w = Some k /\ blocked k = true /\ fin k = false /\ curr k = length (items s)
}.

Ltac simpl_st ::=
  unfold rescuer, clear_woken, set_cons, set_items, set_pending_wakes;
  cbn [src waiting items pending_wakes cons n_polls n_some n_none pulled fst snd].

Lemma wake_inv_init script n : wake_inv None (init script n).
Proof.
  constructor; cbn.
  - intros c k H _ Hb. apply nth_error_repeat in H. subst. discriminate.
  - intros H; contradiction.
  - discriminate.
Qed.

Lemma wake_inv_clear s c : wake_inv None s -> wake_inv (Some c) (clear_woken c s).
Proof.
  intros [H1 H2 H3]. constructor; simpl_st.
  - intros c' k' Hk' Hex Hb Hw. rewrite nth_upd_plain in Hk'. apply option_map_some in Hk' as (k0 & Hk0 & ->).
    unfold entry_after in *. cbn [existsb wake_if] in *. destruct (Nat.eqb_spec c c') as [<-|Hne]; [congruence|].
    apply (H1 _ _ Hk0); auto. discriminate.
  - intros Hne. destruct (H2 Hne) as [(w & Hw)|[(w & k & Hk & Hwk & Hf & Hc)|(w & k & Hex & _)]]; [| |discriminate].
    + left; eauto.
    + destruct (Nat.eqb_spec c w) as [<-|Hcw].
      * right; right. exists c, (set_woken false k). rewrite nth_error_upd_same, Hk. auto.
      * right; left. exists w, k. rewrite nth_error_upd_other; auto.
  - intros w Hw. destruct (H3 _ Hw) as (Hs & Hp & k & Hk & Hb & Hf & Hc). repeat split; auto.
    rewrite nth_upd_plain, Hk. cbn. eexists; split; [reflexivity|]. unfold entry_after. cbn [existsb wake_if].
    destruct (Nat.eqb c w); auto.
Qed.

Lemma wake_inv_weaken s c : wake_inv None s -> wake_inv (Some c) s.
Proof.
  intros [H1 H2 H3]. constructor; auto.
  - intros c' k' Hk' _. apply H1; auto. discriminate.
  - intros Hne. destruct (H2 Hne) as [?|[?|(w & k & Hex & _)]]; [left|right;left|discriminate]; auto.
Qed.

Lemma wake_inv_source_ready s : wake_inv None s -> wake_inv None (source_ready s).
Proof.
  intros [H1 H2 H3]. unfold source_ready.
  destruct (waiting s) as [w|] eqn:Hw; [|constructor; auto; intros w0 Hw0; congruence].
  destruct (H3 _ eq_refl) as ((r & Hr) & _ & kw & Hkw & Hbw & Hfw & Hcw). rewrite Hr.
  constructor; simpl_st.
  - intros c' k' Hk' _ Hb Hwk. unfold wake in Hk'. rewrite nth_upd_plain in Hk'. apply option_map_some in Hk' as (k0 & Hk0 & ->).
    unfold entry_after in *. cbn [existsb wake_if] in *. destruct (Nat.eqb_spec w c') as [<-|Hne]; [discriminate|].
    apply (H1 _ _ Hk0); auto. discriminate.
  - intros _. right; left. exists w, (set_woken true kw). unfold wake. rewrite nth_error_upd_same, Hkw. auto.
  - discriminate.
Qed.

Lemma wake_inv_poll script s c : data_inv script s -> wake_inv (Some c) s -> wake_inv None (fst (poll_next s c)).
Proof.
  intros HD [H1 H2 H3].
  destruct (nth_error (cons s) c) as [k|] eqn:Hk.
  2:{ rewrite poll_next_nohandle; auto. cbn [fst]. constructor; auto.
      - intros c' k' Hk' _. apply H1; auto. congruence.
      - intros Hne. destruct (H2 Hne) as [?|[?|(w & k & Hex & Hk' & _)]]; [left; auto|right; left; auto|congruence]. }
  rewrite (poll_next_eq _ _ _ Hk). pose proof (di_cons _ _ HD _ _ Hk) as Hok.
  destruct (Nat.compare_spec (curr k) (length (items s))) as [He|Hlt|Hgt].
  - pose proof (cons_ok_not_fin_lt _ _ _ Hok ltac:(lia)) as Hf.
    destruct (src s) as [|[x|] r] eqn:Hsrc; cbn [fst].
    + (* end of the source: pending_wakes drained, everybody in it woken *)
      constructor; simpl_st.
      * intros c' k' Hk' _ Hb Hwk. rewrite nth_upd_wake in Hk'. apply option_map_some in Hk' as (k0 & Hk0 & ->).
        unfold entry_after in *. destruct (Nat.eqb_spec c c') as [<-|Hne]; [discriminate|].
        rewrite wake_if_blocked in Hb. rewrite wake_if_woken in Hwk. apply orb_false_iff in Hwk as (Hm & Hw0).
        destruct (H1 _ _ Hk0) as (Hin & _); auto; [congruence|].
        apply existsb_eqb_In in Hin. congruence.
      * intros Hne; contradiction.
      * intros w Hw. destruct (H3 _ Hw) as ((r' & Hr') & _). discriminate.
    + (* the source yields: the same *)
      constructor; simpl_st.
      * intros c' k' Hk' _ Hb Hwk. rewrite nth_upd_wake in Hk'. apply option_map_some in Hk' as (k0 & Hk0 & ->).
        unfold entry_after in *. destruct (Nat.eqb_spec c c') as [<-|Hne]; [discriminate|].
        rewrite wake_if_blocked in Hb. rewrite wake_if_woken in Hwk. apply orb_false_iff in Hwk as (Hm & Hw0).
        destruct (H1 _ _ Hk0) as (Hin & _); auto; [congruence|].
        apply existsb_eqb_In in Hin. congruence.
      * intros Hne; contradiction.
      * intros w Hw. destruct (H3 _ Hw) as ((r' & Hr') & _). discriminate.
    + (* the source is pending: c registers with the source and queues its waker *)
      constructor; simpl_st.
      * intros c' k' Hk' _ Hb Hwk. rewrite nth_upd_plain in Hk'. apply option_map_some in Hk' as (k0 & Hk0 & ->).
        unfold entry_after in *. cbn [existsb wake_if] in *. destruct (Nat.eqb_spec c c') as [<-|Hne].
        -- rewrite Hk in Hk0. injection Hk0 as <-. split; [apply in_or_app; right; left; auto|exact He].
        -- destruct (H1 _ _ Hk0) as (Hin & Hc); auto; [congruence|]. split; auto. apply in_or_app; auto.
      * intros _. left; eauto.
      * intros w [= <-]. split; [eauto|]. split; [eauto|].
        exists (set_blocked true k). rewrite nth_error_upd_same, Hk. auto.
  - (* Lt *)
    cbn [fst]. destruct (cons_ok_cached _ _ _ (curr k) Hok eq_refl Hlt) as (x & Hx & _). rewrite Hx.
    constructor; simpl_st.
    + intros c' k' Hk' _ Hb Hwk. rewrite nth_upd_plain in Hk'. apply option_map_some in Hk' as (k0 & Hk0 & ->).
      unfold entry_after in *. cbn [existsb wake_if] in *. destruct (Nat.eqb_spec c c') as [<-|Hne]; [discriminate|].
      apply (H1 _ _ Hk0); auto. congruence.
    + intros Hne. destruct (H2 Hne) as [?|[(w & kw & Hkw & Hww & Hfw & Hcw)|(w & kw & Hex & Hkw & Hfw & Hcw)]].
      * left; auto.
      * right; left. exists w, kw. destruct (Nat.eqb_spec c w) as [<-|Hcw']; [|rewrite nth_error_upd_other; auto].
        rewrite Hk in Hkw. injection Hkw as <-. lia.
      * injection Hex as <-. rewrite Hk in Hkw. injection Hkw as <-. lia.
    + intros w Hw. destruct (H3 _ Hw) as (Hs & Hp & kw & Hkw & Hbw & Hfw & Hcw). repeat split; auto.
      exists kw. destruct (Nat.eqb_spec c w) as [<-|Hcw']; [|rewrite nth_error_upd_other; auto].
      rewrite Hk in Hkw. injection Hkw as <-. lia.
  - (* Gt *)
    cbn [fst].
    constructor; simpl_st.
    + intros c' k' Hk' _ Hb Hwk. rewrite nth_upd_plain in Hk'. apply option_map_some in Hk' as (k0 & Hk0 & ->).
      unfold entry_after in *. cbn [existsb wake_if] in *. destruct (Nat.eqb_spec c c') as [<-|Hne]; [discriminate|].
      apply (H1 _ _ Hk0); auto. congruence.
    + intros Hne. destruct (H2 Hne) as [?|[(w & kw & Hkw & Hww & Hfw & Hcw)|(w & kw & Hex & Hkw & Hfw & Hcw)]].
      * left; auto.
      * right; left. exists w, kw. destruct (Nat.eqb_spec c w) as [<-|Hcw']; [|rewrite nth_error_upd_other; auto].
        rewrite Hk in Hkw. injection Hkw as <-. lia.
      * injection Hex as <-. rewrite Hk in Hkw. injection Hkw as <-. lia.
    + intros w Hw. destruct (H3 _ Hw) as (Hs & Hp & kw & Hkw & Hbw & Hfw & Hcw). repeat split; auto.
      exists kw. destruct (Nat.eqb_spec c w) as [<-|Hcw']; [|rewrite nth_error_upd_other; auto].
      rewrite Hk in Hkw. injection Hkw as <-. lia.
Qed.

(* ------------------------------------------------------------------------------------------ *)
(* the invariant of every reachable state                                                      *)

Definition Inv (script : list (sstep A)) (n : nat) (s : astate) : Prop :=
  data_inv script s /\ wake_inv None s /\ length (cons s) = n.

Lemma length_cons_poll (s : astate) c : length (cons (fst (poll_next s c))) = length (cons s).
Proof.
  destruct (nth_error (cons s) c) as [k|] eqn:Hk; [|rewrite poll_next_nohandle; auto].
  rewrite (poll_next_eq _ _ _ Hk).
  destruct (Nat.compare (curr k) (length (items s))); [destruct (src s) as [|[x|] r]| |]; simpl_st;
    rewrite ?upd_length, ?wake_all_length; reflexivity.
Qed.

Lemma length_cons_clear (s : astate) c : length (cons (clear_woken c s)) = length (cons s).
Proof. simpl_st. apply upd_length. Qed.

Lemma length_cons_source_ready (s : astate) : length (cons (source_ready s)) = length (cons s).
Proof.
  unfold source_ready. destruct (waiting s); auto. destruct (src s) as [|[x|] r]; auto.
  simpl_st. unfold wake. apply upd_length.
Qed.

Lemma Inv_init script n : Inv script n (init script n).
Proof. split; [apply data_inv_init|split; [apply wake_inv_init|]]. cbn. apply repeat_length. Qed.

Lemma Inv_poll_next script n s c : Inv script n s -> Inv script n (fst (poll_next s c)).
Proof.
  intros (HD & HW & HL). split; [apply data_inv_poll; auto|split].
  - eapply wake_inv_poll; eauto. apply wake_inv_weaken; auto.
  - rewrite length_cons_poll; auto.
Qed.

Lemma Inv_step script n s a : Inv script n s -> Inv script n (step s a).
Proof.
  intros (HD & HW & HL). destruct a as [c|]; cbn [step].
  - split; [apply data_inv_poll, data_inv_clear; auto|split].
    + eapply wake_inv_poll; [apply data_inv_clear; eauto|]. apply wake_inv_clear; auto.
    + rewrite length_cons_poll, length_cons_clear; auto.
  - split; [apply data_inv_source_ready; auto|split; [apply wake_inv_source_ready; auto|]].
    rewrite length_cons_source_ready; auto.
Qed.

Lemma Inv_run script n sched : forall s, Inv script n s -> Inv script n (run s sched).
Proof. induction sched as [|a r IH]; intros s H; cbn; auto. apply IH, Inv_step, H. Qed.

Lemma Inv_request_poll script n fuel answers : forall s c s' p,
  Inv script n s -> request_poll fuel answers s c = Done (s', p) -> Inv script n s'.
Proof.
  induction fuel as [|f IH]; intros s c s' p HI; cbn; [discriminate|].
  pose proof (Inv_poll_next _ _ _ c HI) as HI'.
  destruct (poll_next s c) as [s1 p1]. cbn [fst] in HI'.
  destruct p1 as [[x|]|].
  - destruct (answers x); [intros [= <- <-]; auto | intros H; eapply IH; eauto].
  - intros [= <- <-]; auto.
  - intros [= <- <-]; auto.
Qed.

Lemma Inv_request_step script n fuel no_keys answers s c s' p :
  Inv script n s -> request_step fuel no_keys answers s c = Done (s', p) -> Inv script n s'.
Proof.
  intros HI0. unfold request_step. destruct no_keys; [intros [= <- <-]; exact HI0|].
  destruct HI0 as (HD & HW & HL). destruct fuel as [|f]; cbn; [discriminate|].
  assert (HI' : Inv script n (fst (poll_next (clear_woken c s) c))).
  { split; [apply data_inv_poll, data_inv_clear; auto|split].
    - eapply wake_inv_poll; [apply data_inv_clear; eauto|]. apply wake_inv_clear; auto.
    - rewrite length_cons_poll, length_cons_clear; auto. }
  destruct (poll_next (clear_woken c s) c) as [s1 p1]. cbn [fst] in HI'.
  destruct p1 as [[x|]|].
  - destruct (answers x); [intros [= <- <-]; auto | intros H; eapply Inv_request_poll; eauto].
  - intros [= <- <-]; auto.
  - intros [= <- <-]; auto.
Qed.

(* reachable states: handle-level steps in any interleaving, and polls of request futures *)
Inductive reachable (script : list (sstep A)) (n : nat) : astate -> Prop :=
| R_init : reachable script n (init script n)
| R_step s a : reachable script n s -> reachable script n (step s a)
| R_request s c fuel no_keys answers s' p :
    reachable script n s -> request_step fuel no_keys answers s c = Done (s', p) -> reachable script n s'.

Lemma reachable_Inv script n s : reachable script n s -> Inv script n s.
Proof.
  induction 1; [apply Inv_init|apply Inv_step; auto|eapply Inv_request_step; eauto].
Qed.

Lemma run_reachable script n sched : forall s, reachable script n s -> reachable script n (run s sched).
Proof. induction sched as [|a r IH]; intros s H; cbn; auto. apply IH. constructor; auto. Qed.

(* ------------------------------------------------------------------------------------------ *)
(* safety theorems                                                                             *)

Lemma polls_only_at_frontier (s : astate) c :
  n_polls (fst (poll_next s c)) <> n_polls s ->
  exists k, nth_error (cons s) c = Some k /\ curr k = length (items s).
Proof.
  destruct (nth_error (cons s) c) as [k|] eqn:Hk; [|rewrite poll_next_nohandle; auto; intros Hq; contradiction].
  rewrite (poll_next_eq _ _ _ Hk).
  destruct (Nat.compare_spec (curr k) (length (items s))); [eauto| |]; simpl_st; intros Hq; contradiction.
Qed.

Lemma source_ready_no_poll (s : astate) : n_polls (source_ready s) = n_polls s /\ items (source_ready s) = items s.
Proof.
  unfold source_ready. destruct (waiting s); auto. destruct (src s) as [|[x|] r]; auto.
Qed.

Lemma clear_no_poll (s : astate) c : n_polls (clear_woken c s) = n_polls s /\ items (clear_woken c s) = items s.
Proof. split; reflexivity. Qed.

Lemma Inv_same_order script n s c k : Inv script n s -> nth_error (cons s) c = Some k ->
  seen k = firstn (curr k) (items s) /\ length (seen k) <= length (items s) /\
  (fin k = true -> seen k = items s /\ items s = src_items script).
Proof.
  intros (HD & _ & _) Hk. destruct (di_cons _ _ HD _ _ Hk) as [H1 H2].
  destruct (fin k) eqn:Hf.
  - destruct (H2 eq_refl) as (Hc & Hs & Hsrc & _). rewrite Hs, Hc.
    split; [|split; [lia|intros _; split; auto]].
    + rewrite firstn_all2; auto.
    + rewrite (di_prefix _ _ HD), Hsrc. cbn. rewrite app_nil_r. reflexivity.
  - destruct (H1 eq_refl) as (Hle & Hs). split; [auto|split; [|discriminate]].
    rewrite Hs, firstn_length. lia.
Qed.

Lemma Inv_lazy_front script n s : Inv script n s -> items s <> [] ->
  exists c k, nth_error (cons s) c = Some k /\ seen k = items s.
Proof.
  intros HI Hne. destruct HI as (HD & HW & HL).
  destruct (di_front _ _ HD Hne) as (c & k & Hk & Hle). exists c, k. split; auto.
  destruct (Inv_same_order script n s c k (conj HD (conj HW HL)) Hk) as (Hs & _ & Hfin).
  destruct (fin k) eqn:Hf; [apply Hfin; auto|].
  rewrite Hs. apply firstn_all2; auto.
Qed.

Lemma Inv_wake_all script n s c : Inv script n s ->
  n_some s + n_none s < n_some (fst (poll_next s c)) + n_none (fst (poll_next s c)) ->
  pending_wakes (fst (poll_next s c)) = [] /\
  forall c' k', nth_error (cons (fst (poll_next s c))) c' = Some k' -> blocked k' = true -> woken k' = true.
Proof.
  intros HI Hlt. pose proof (Inv_poll_next _ _ _ c HI) as (_ & HW' & _).
  assert (Hpw : pending_wakes (fst (poll_next s c)) = []).
  { revert Hlt. destruct (nth_error (cons s) c) as [k|] eqn:Hk; [|rewrite poll_next_nohandle; auto; cbn [fst]; lia].
    rewrite (poll_next_eq _ _ _ Hk).
    destruct (Nat.compare (curr k) (length (items s))); [destruct (src s) as [|[x|] r]| |]; simpl_st; auto; lia. }
  split; auto. intros c' k' Hk' Hb. destruct (woken k') eqn:Hw; auto.
  destruct (wi_blocked _ _ HW' _ _ Hk') as (Hin & _); auto; [discriminate|]. rewrite Hpw in Hin. destruct Hin.
Qed.

(* ------------------------------------------------------------------------------------------ *)
(* progress: the variant                                                                       *)

Section Variant.
Variables (n T : nat).
Notation w := (@cons_weight A n T).

Lemma w_deliver_none k : w (deliver None k) = 0.
Proof. reflexivity. Qed.

Lemma w_deliver_some x m k : fin k = false -> w (deliver (Some x) (set_curr m k)) = S n + 3 * (S T - m) + 2.
Proof. intros Hf. unfold cons_weight, status_weight, deliver, set_curr. cbn [fin curr blocked woken]. rewrite Hf. reflexivity. Qed.

Lemma w_lower k : fin k = false -> S n + 3 * (S T - curr k) <= w k.
Proof. intros Hf. unfold cons_weight. rewrite Hf. lia. Qed.

Lemma w_fin k : fin k = true -> w k = 0.
Proof. intros Hf. unfold cons_weight. rewrite Hf. reflexivity. Qed.

Lemma w_set_woken_true k : w (set_woken true k) <= w k + 1.
Proof.
  unfold cons_weight, status_weight, set_woken. cbn [fin curr blocked woken].
  destruct (fin k); [lia|]. destruct (blocked k), (woken k); lia.
Qed.

Lemma w_wake_if b k : w (wake_if b k) <= w k + 1.
Proof. destruct b; [apply w_set_woken_true|cbn; lia]. Qed.

Lemma w_set_woken_false k : w (set_woken false k) <= w k.
Proof.
  unfold cons_weight, status_weight, set_woken. cbn [fin curr blocked woken].
  destruct (fin k); [lia|]. destruct (blocked k), (woken k); lia.
Qed.

Lemma w_set_woken_false_strict k : fin k = false -> blocked k = true -> woken k = true -> w (set_woken false k) + 1 <= w k.
Proof.
  intros Hf Hb Hw. unfold cons_weight, status_weight, set_woken. cbn [fin curr blocked woken]. rewrite Hf, Hb, Hw. lia.
Qed.

Lemma w_set_woken_false_unblocked k : blocked k = false -> w (set_woken false k) = w k.
Proof.
  intros Hb. unfold cons_weight, status_weight, set_woken. cbn [fin curr blocked woken]. rewrite Hb. reflexivity.
Qed.

Lemma w_set_blocked k : w (set_blocked true k) <= w k.
Proof.
  unfold cons_weight, status_weight, set_blocked. cbn [fin curr blocked woken].
  destruct (fin k); [lia|]. destruct (blocked k), (woken k); lia.
Qed.

Lemma w_set_blocked_strict k : fin k = false -> blocked k = false -> w (set_blocked true k) + 1 <= w k.
Proof.
  intros Hf Hb. unfold cons_weight, status_weight, set_blocked. cbn [fin curr blocked woken]. rewrite Hf, Hb.
  destruct (woken k); lia.
Qed.

Lemma sumf_wake_all_le ws (l : list consumer) : sumf w (wake_all ws l) <= sumf w l + length l.
Proof.
  pose proof (sumf_pointwise w w 1 l (wake_all ws l)) as H. rewrite Nat.mul_1_l in H. apply H.
  apply Forall2_nth; [rewrite wake_all_length; auto|].
  intros i a b Ha Hb. rewrite wake_all_nth, Ha in Hb. injection Hb as <-. apply w_wake_if.
Qed.

Lemma variant_clear_le (s : astate) c : variant_at n T (clear_woken c s) <= variant_at n T s.
Proof.
  unfold variant_at. simpl_st. pose proof (sumf_upd_le w c (set_woken false) (cons s) 0) as H.
  rewrite Nat.add_0_r in H. specialize (H ltac:(intros a; rewrite Nat.add_0_r; apply w_set_woken_false)). lia.
Qed.

Lemma variant_clear_lt (s : astate) c k : nth_error (cons s) c = Some k ->
  fin k = false -> blocked k = true -> woken k = true -> variant_at n T (clear_woken c s) < variant_at n T s.
Proof.
  intros Hk Hf Hb Hw. unfold variant_at. simpl_st.
  pose proof (sumf_upd w c (set_woken false) (cons s) k Hk) as E.
  pose proof (w_set_woken_false_strict k Hf Hb Hw). lia.
Qed.

Lemma variant_clear_eq (s : astate) c k : nth_error (cons s) c = Some k ->
  blocked k = false -> variant_at n T (clear_woken c s) = variant_at n T s.
Proof.
  intros Hk Hb. unfold variant_at. simpl_st.
  pose proof (sumf_upd w c (set_woken false) (cons s) k Hk) as E.
  rewrite (w_set_woken_false_unblocked k Hb) in E. lia.
Qed.

Lemma variant_source_ready (s : astate) : length (cons s) = n ->
  variant_at n T (source_ready s) <= variant_at n T s /\
  (fair s SourceReady = true -> variant_at n T (source_ready s) < variant_at n T s).
Proof.
  intros HL. unfold source_ready, fair. destruct (waiting s) as [w0|]; [|split; [lia|discriminate]].
  destruct (src s) as [|[x|] r] eqn:Hsrc; try (split; [lia|discriminate]).
  unfold variant_at. simpl_st. rewrite Hsrc. cbn [length]. rewrite Nat.mul_succ_r.
  pose proof (sumf_upd_le w w0 (set_woken true) (cons s) 1 w_set_woken_true) as H. unfold wake.
  split; [|intros _]; lia.
Qed.

Lemma variant_poll script (s : astate) c : data_inv script s -> length (cons s) = n -> T = length (src_items script) ->
  variant_at n T (fst (poll_next s c)) <= variant_at n T s /\
  (forall k, nth_error (cons s) c = Some k -> fin k = false -> blocked k = false ->
             variant_at n T (fst (poll_next s c)) < variant_at n T s).
Proof.
  intros HD HL HT.
  destruct (nth_error (cons s) c) as [k|] eqn:Hk; [|rewrite poll_next_nohandle; auto; cbn [fst]; split; [lia|intros k0 Hq; discriminate]].
  rewrite (poll_next_eq _ _ _ Hk). pose proof (di_cons _ _ HD _ _ Hk) as Hok.
  pose proof (di_prefix _ _ HD) as Hpre. apply (f_equal (@length A)) in Hpre. rewrite app_length in Hpre.
  destruct (Nat.compare_spec (curr k) (length (items s))) as [He|Hlt|Hgt].
  - pose proof (cons_ok_not_fin_lt _ _ _ Hok ltac:(lia)) as Hf.
    destruct (src s) as [|[x|] r] eqn:Hsrc; unfold variant_at; simpl_st; rewrite ?Hsrc; cbn [length src_items] in *.
    + (* end: c finishes, the others are at most woken *)
      pose proof (sumf_upd w c (fun k' => deliver None (set_curr (S (curr k)) k')) (wake_all (pending_wakes s) (cons s))
                    (wake_if (existsb (Nat.eqb c) (pending_wakes s)) k)) as E.
      rewrite wake_all_nth, Hk in E. specialize (E eq_refl). cbv beta in E. rewrite w_deliver_none in E.
      pose proof (sumf_wake_all_le (pending_wakes s) (cons s)) as Hw.
      pose proof (w_lower (wake_if (existsb (Nat.eqb c) (pending_wakes s)) k)) as Hlow.
      rewrite wake_if_fin, wake_if_curr in Hlow. specialize (Hlow Hf).
      split; [|intros k0 _ _ _]; lia.
    + (* a new item *)
      pose proof (sumf_upd w c (fun k' => deliver (Some x) (set_curr (S (curr k)) k')) (wake_all (pending_wakes s) (cons s))
                    (wake_if (existsb (Nat.eqb c) (pending_wakes s)) k)) as E.
      rewrite wake_all_nth, Hk in E. specialize (E eq_refl). cbv beta in E.
      rewrite w_deliver_some in E by (rewrite wake_if_fin; auto).
      pose proof (sumf_wake_all_le (pending_wakes s) (cons s)) as Hw.
      pose proof (w_lower (wake_if (existsb (Nat.eqb c) (pending_wakes s)) k)) as Hlow.
      rewrite wake_if_fin, wake_if_curr in Hlow. specialize (Hlow Hf).
      rewrite Nat.mul_succ_r.
      split; [|intros k0 _ _ _]; lia.
    + (* pending *)
      pose proof (sumf_upd w c (set_blocked true) (cons s) k Hk) as E.
      pose proof (w_set_blocked k) as Hle.
      split; [lia|]. intros k0 [= <-] _ Hb. pose proof (w_set_blocked_strict k Hf Hb). lia.
  - (* cached *)
    pose proof (cons_ok_not_fin_lt _ _ _ Hok ltac:(lia)) as Hf.
    destruct (cons_ok_cached _ _ _ (curr k) Hok eq_refl Hlt) as (x & Hx & _). rewrite Hx.
    unfold variant_at; simpl_st.
    pose proof (sumf_upd w c (fun k' => deliver (Some x) (set_curr (S (curr k)) k')) (cons s) k Hk) as E.
    cbv beta in E. rewrite w_deliver_some in E by auto. pose proof (w_lower k Hf) as Hlow.
    split; [|intros k0 _ _ _]; lia.
  - (* ran off the end: already finished *)
    destruct (cons_ok_gt _ _ _ Hok Hgt) as (_ & Hf).
    unfold variant_at; simpl_st.
    pose proof (sumf_upd w c (deliver None) (cons s) k Hk) as E. rewrite w_deliver_none, (w_fin k Hf) in E.
    split; [lia|]. intros k0 [= <-] Hf'. congruence.
Qed.

End Variant.

Lemma variant_eq script n s : Inv script n s -> variant s = variant_at n (length (src_items script)) s.
Proof.
  intros (HD & _ & HL). unfold variant. rewrite HL. f_equal.
  rewrite (di_prefix _ _ HD), app_length. reflexivity.
Qed.

Lemma fair_poll_runnable (s : astate) c : fair s (Poll c) = true ->
  exists k, nth_error (cons s) c = Some k /\ fin k = false /\ (blocked k = false \/ woken k = true).
Proof.
  cbn. destruct (nth_error (cons s) c) as [k|]; [|discriminate]. unfold runnable.
  intros H. apply andb_true_iff in H as (H1 & H2). apply negb_true_iff in H1. apply orb_true_iff in H2.
  exists k. repeat split; auto. destruct H2 as [H2|H2]; [left; apply negb_true_iff, H2|right; auto].
Qed.

Lemma nth_clear_same (s : astate) c k : nth_error (cons s) c = Some k ->
  nth_error (cons (clear_woken c s)) c = Some (set_woken false k).
Proof. intros Hk. simpl_st. rewrite nth_error_upd_same, Hk. reflexivity. Qed.

Lemma step_variant script n s a : Inv script n s ->
  variant (step s a) <= variant s /\ (fair s a = true -> variant (step s a) < variant s).
Proof.
  intros HI. rewrite (variant_eq script n s HI), (variant_eq script n (step s a) (Inv_step _ _ _ a HI)).
  destruct HI as (HD & HW & HL). set (T := length (src_items script)).
  destruct a as [c|]; cbn [step].
  - pose proof (variant_clear_le n T s c) as Hc.
    destruct (variant_poll n T script (clear_woken c s) c (data_inv_clear _ _ c HD)
                ltac:(rewrite length_cons_clear; auto) eq_refl) as (Hle & Hlt).
    split; [lia|]. intros Hfair. destruct (fair_poll_runnable _ _ Hfair) as (k & Hk & Hf & Hrun).
    destruct (blocked k) eqn:Hb.
    + destruct Hrun as [?|Hw]; [discriminate|]. pose proof (variant_clear_lt n T s c k Hk Hf Hb Hw). lia.
    + specialize (Hlt (set_woken false k) (nth_clear_same _ _ _ Hk) Hf Hb).
      rewrite (variant_clear_eq n T s c k Hk Hb) in Hlt. exact Hlt.
  - apply variant_source_ready; auto.
Qed.

Lemma count_fair_bound script n sched : forall s, Inv script n s -> count_fair s sched <= variant s.
Proof.
  induction sched as [|a r IH]; intros s HI; cbn; [lia|].
  specialize (IH _ (Inv_step _ _ _ a HI)). destruct (step_variant script n s a HI) as (Hle & Hlt).
  destruct (fair s a); [specialize (Hlt eq_refl)|]; lia.
Qed.

(* until everybody is done, a fair step is enabled: the fair scheduler `pick` finds one *)
Lemma pick_fair script n s : Inv script n s -> all_done s = false -> fair s (pick s) = true.
Proof.
  intros (HD & HW & HL) Hnd. unfold pick.
  destruct (find_idx runnable (cons s) 0) as [c|] eqn:Hfind.
  - destruct (find_idx_some _ _ _ _ Hfind) as (k & Hk & Hr & _). rewrite Nat.sub_0_r in Hk. cbn. rewrite Hk. exact Hr.
  - pose proof (find_idx_none _ _ _ Hfind) as Hnone.
    apply forallb_false_nth in Hnd as (c & k & Hk & Hf).
    pose proof (Hnone _ _ Hk) as Hr. unfold runnable in Hr. rewrite Hf in Hr. cbn in Hr.
    apply orb_false_iff in Hr as (Hb & Hw). apply negb_false_iff in Hb.
    destruct (wi_blocked _ _ HW _ _ Hk ltac:(discriminate) Hb Hw) as (Hin & _).
    destruct (wi_pw _ _ HW) as [(w0 & Hw0)|[(w0 & k0 & Hk0 & Hwk & Hfk & _)|(w0 & k0 & Hex & _)]].
    + intros E; rewrite E in Hin; destruct Hin.
    + cbn. rewrite Hw0. destruct (wi_waiting _ _ HW _ Hw0) as ((r & ->) & _). reflexivity.
    + pose proof (Hnone _ _ Hk0) as Hr0. unfold runnable in Hr0. rewrite Hfk, Hwk, orb_true_r in Hr0. discriminate.
    + discriminate.
Qed.

Lemma done_no_fair script n s a : Inv script n s -> all_done s = true -> fair s a = false.
Proof.
  intros (HD & HW & HL) Hd. destruct (fair s a) eqn:Hfair; auto. destruct a as [c|].
  - destruct (fair_poll_runnable _ _ Hfair) as (k & Hk & Hf & _).
    rewrite (forallb_true_nth _ _ _ _ Hd Hk) in Hf. discriminate.
  - cbn in Hfair. destruct (waiting s) as [w0|] eqn:Hw0; [|discriminate].
    destruct (wi_waiting _ _ HW _ Hw0) as (_ & _ & k & Hk & _ & Hf & _).
    rewrite (forallb_true_nth _ _ _ _ Hd Hk) in Hf. discriminate.
Qed.

Lemma fair_run_done script n : forall m s, Inv script n s -> variant s <= m ->
  all_done (run s (fair_run m s)) = true /\ length (fair_run m s) <= m /\
  count_fair s (fair_run m s) = length (fair_run m s).
Proof.
  induction m as [|m IH]; intros s HI Hv.
  - cbn. destruct (all_done s) eqn:Hd; auto.
    pose proof (pick_fair _ _ _ HI Hd) as Hf. destruct (step_variant _ _ _ (pick s) HI) as (_ & Hlt).
    specialize (Hlt Hf). lia.
  - cbn [fair_run]. destruct (all_done s) eqn:Hd; [cbn; repeat split; auto; lia|].
    pose proof (pick_fair _ _ _ HI Hd) as Hf. destruct (step_variant _ _ _ (pick s) HI) as (_ & Hlt).
    specialize (Hlt Hf). destruct (IH (step s (pick s)) (Inv_step _ _ _ _ HI) ltac:(lia)) as (H1 & H2 & H3).
    cbn [run fold_left length count_fair]. rewrite Hf. repeat split; auto; try lia.
Qed.

(* ------------------------------------------------------------------------------------------ *)
(* the synchronous Cache                                                                       *)

Lemma cache_iter_next_eq (c : cache) i k : nth_error (c_cons c) i = Some k ->
  cache_iter_next c i =
  match Nat.compare (curr k) (length (c_items c)) with
  | Lt => (mkCache (c_iter c) (c_items c) (c_calls c)
             (upd i (fun k' => deliver (nth_error (c_items c) (curr k)) (set_curr (S (curr k)) k')) (c_cons c)),
           nth_error (c_items c) (curr k))
  | Eq =>
      match c_iter c with
      | x :: r => (mkCache r (c_items c ++ [x]) (S (c_calls c))
                     (upd i (fun k' => deliver (Some x) (set_curr (S (curr k)) k')) (c_cons c)), Some x)
      | [] => (mkCache [] (c_items c) (S (c_calls c))
                 (upd i (fun k' => deliver None (set_curr (S (curr k)) k')) (c_cons c)), None)
      end
  | Gt => (mkCache (c_iter c) (c_items c) (c_calls c) (upd i (deliver None) (c_cons c)), None)
  end.
Proof.
  intros Hk. unfold cache_iter_next. rewrite Hk.
  destruct (Nat.compare (curr k) (length (c_items c))).
  - unfold iter_next. destruct (c_iter c) as [|x r]; reflexivity.
  - cbn [Nat.sub]. rewrite Nat.sub_0_r. reflexivity.
  - reflexivity.
Qed.

Record sync_inv (src0 : list A) (c : cache) : Prop := {
  si_prefix : src0 = c_items c ++ c_iter c;
  si_calls : c_calls c = length (c_items c) + sumf fin_ind (c_cons c);
  si_cons : forall i k, nth_error (c_cons c) i = Some k -> cons_ok (c_items c) (c_iter c = []) k;
  si_front : c_items c <> [] -> exists i k, nth_error (c_cons c) i = Some k /\ length (c_items c) <= curr k
}.

Lemma sync_inv_init src0 n : sync_inv src0 (cache_new src0 n).
Proof.
  constructor; cbn; auto.
  - symmetry; apply sumf_repeat_new.
  - intros i k H. apply nth_error_repeat in H. subst. apply cons_ok_new.
  - intros H; contradiction.
Qed.

Ltac simpl_c := cbn [c_iter c_items c_calls c_cons fst snd].

Lemma sync_inv_next src0 c i : sync_inv src0 c -> sync_inv src0 (fst (cache_iter_next c i)).
Proof.
  intros [H1 H4 H5 H6].
  destruct (nth_error (c_cons c) i) as [k|] eqn:Hk.
  2:{ unfold cache_iter_next. rewrite Hk. constructor; auto. }
  rewrite (cache_iter_next_eq _ _ _ Hk). pose proof (H5 _ _ Hk) as Hok.
  destruct (Nat.compare_spec (curr k) (length (c_items c))) as [He|Hlt|Hgt].
  - pose proof (cons_ok_not_fin_lt _ _ _ Hok ltac:(lia)) as Hf.
    destruct (c_iter c) as [|x r] eqn:Hsrc; simpl_c.
    + constructor; simpl_c; auto.
      * pose proof (sumf_upd fin_ind i (fun k' => deliver None (set_curr (S (curr k)) k')) (c_cons c) k Hk) as E.
        cbv beta in E. rewrite fin_ind_deliver_none, (fin_ind_false _ Hf) in E. lia.
      * intros c' k' Hk'. rewrite nth_upd_plain in Hk'. apply option_map_some in Hk' as (k0 & Hk0 & ->).
        unfold entry_after. cbn [existsb wake_if]. destruct (Nat.eqb_spec i c') as [<-|Hne]; [|apply (H5 _ _ Hk0)].
        rewrite Hk in Hk0. injection Hk0 as <-. apply cons_ok_end_self; auto.
      * intros Hne. eapply front_mono; [apply H6, Hne|].
        intros c' k0 Hk0. rewrite nth_upd_plain, Hk0. cbn. eexists; split; [reflexivity|].
        unfold entry_after. destruct (Nat.eqb_spec i c') as [<-|Hne']; cbn; try lia.
        rewrite Hk in Hk0. injection Hk0 as <-. lia.
    + constructor; simpl_c.
      * rewrite H1. rewrite <- app_assoc. reflexivity.
      * pose proof (sumf_upd fin_ind i (fun k' => deliver (Some x) (set_curr (S (curr k)) k')) (c_cons c) k Hk) as E.
        cbv beta in E. rewrite fin_ind_deliver_some, fin_ind_set_curr in E. rewrite app_length; cbn [length]. lia.
      * intros c' k' Hk'. rewrite nth_upd_plain in Hk'. apply option_map_some in Hk' as (k0 & Hk0 & ->).
        unfold entry_after. cbn [existsb wake_if]. destruct (Nat.eqb_spec i c') as [<-|Hne].
        -- rewrite Hk in Hk0. injection Hk0 as <-. eapply cons_ok_pull_self; eauto.
        -- eapply cons_ok_pull_other; [apply (H5 _ _ Hk0)|discriminate].
      * intros _. exists i. rewrite nth_upd_plain, Hk. cbn. eexists; split; [reflexivity|].
        unfold entry_after. rewrite Nat.eqb_refl. cbn. rewrite app_length; cbn. lia.
  - simpl_c. destruct (cons_ok_cached _ _ _ (curr k) Hok eq_refl Hlt) as (x & Hx & Hok').
    rewrite Hx in *.
    constructor; simpl_c; auto.
    + pose proof (sumf_upd fin_ind i (fun k' => deliver (Some x) (set_curr (S (curr k)) k')) (c_cons c) k Hk) as E.
      cbv beta in E. rewrite fin_ind_deliver_some, fin_ind_set_curr in E. lia.
    + intros c' k' Hk'. rewrite nth_upd_plain in Hk'. apply option_map_some in Hk' as (k0 & Hk0 & ->).
      unfold entry_after. cbn [existsb wake_if]. destruct (Nat.eqb_spec i c') as [<-|Hne]; [|apply (H5 _ _ Hk0)].
      rewrite Hk in Hk0. injection Hk0 as <-. exact Hok'.
    + intros Hne. eapply front_mono; [apply H6, Hne|].
      intros c' k0 Hk0. rewrite nth_upd_plain, Hk0. cbn. eexists; split; [reflexivity|].
      unfold entry_after. destruct (Nat.eqb_spec i c') as [<-|Hne']; cbn; try lia.
      rewrite Hk in Hk0. injection Hk0 as <-. cbn. lia.
  - simpl_c. destruct (cons_ok_gt _ _ _ Hok Hgt) as (Hok' & Hf).
    constructor; simpl_c; auto.
    + pose proof (sumf_upd fin_ind i (deliver None) (c_cons c) k Hk) as E.
      rewrite fin_ind_deliver_none, (fin_ind_true _ Hf) in E. lia.
    + intros c' k' Hk'. rewrite nth_upd_plain in Hk'. apply option_map_some in Hk' as (k0 & Hk0 & ->).
      unfold entry_after. cbn [existsb wake_if]. destruct (Nat.eqb_spec i c') as [<-|Hne]; [|apply (H5 _ _ Hk0)].
      rewrite Hk in Hk0. injection Hk0 as <-. exact Hok'.
    + intros Hne. eapply front_mono; [apply H6, Hne|].
      intros c' k0 Hk0. rewrite nth_upd_plain, Hk0. cbn. eexists; split; [reflexivity|].
      unfold entry_after. destruct (Nat.eqb i c'); cbn; lia.
Qed.

Lemma sync_inv_request src0 fuel answers : forall c i c' r,
  sync_inv src0 c -> request_sync fuel answers c i = Done (c', r) -> sync_inv src0 c'.
Proof.
  induction fuel as [|f IH]; intros c i c' r HI; cbn; [discriminate|].
  pose proof (sync_inv_next _ _ i HI) as HI'.
  destruct (cache_iter_next c i) as [c1 r1]. cbn [fst] in HI'.
  destruct r1 as [x|].
  - destruct (answers x); [intros [= <- <-]; auto | intros H; eapply IH; eauto].
  - intros [= <- <-]; auto.
Qed.

Lemma sync_inv_request_step src0 fuel no_keys answers c i c' r :
  sync_inv src0 c -> request_sync_step fuel no_keys answers c i = Done (c', r) -> sync_inv src0 c'.
Proof.
  intros HI. unfold request_sync_step. destruct no_keys; [intros [= <- <-]; exact HI|].
  intros H. eapply sync_inv_request; eauto.
Qed.

(* reachable caches: next() on the handles in any interleaving, and whole synchronous requests *)
Inductive sreachable (src0 : list A) (n : nat) : cache -> Prop :=
| S_init : sreachable src0 n (cache_new src0 n)
| S_next c i : sreachable src0 n c -> sreachable src0 n (cache_step c i)
| S_request c i fuel no_keys answers c' r :
    sreachable src0 n c -> request_sync_step fuel no_keys answers c i = Done (c', r) -> sreachable src0 n c'.

Lemma sreachable_inv src0 n c : sreachable src0 n c -> sync_inv src0 c.
Proof.
  induction 1; [apply sync_inv_init|apply sync_inv_next; auto|eapply sync_inv_request_step; eauto].
Qed.

Lemma cache_run_sreachable src0 n h : forall c, sreachable src0 n c -> sreachable src0 n (cache_run c h).
Proof. induction h as [|i r IH]; intros c H; cbn; auto. apply IH. constructor; auto. Qed.

Lemma calls_only_at_frontier (c : cache) i :
  c_calls (fst (cache_iter_next c i)) <> c_calls c ->
  exists k, nth_error (c_cons c) i = Some k /\ curr k = length (c_items c).
Proof.
  destruct (nth_error (c_cons c) i) as [k|] eqn:Hk.
  2:{ unfold cache_iter_next. rewrite Hk. cbn. intros Hq; contradiction. }
  rewrite (cache_iter_next_eq _ _ _ Hk).
  destruct (Nat.compare_spec (curr k) (length (c_items c))); [eauto| |]; simpl_c; intros Hq; contradiction.
Qed.

Lemma sync_same_order src0 c i k : sync_inv src0 c -> nth_error (c_cons c) i = Some k ->
  seen k = firstn (curr k) (c_items c) /\ length (seen k) <= length (c_items c) /\
  (fin k = true -> seen k = c_items c /\ c_items c = src0).
Proof.
  intros HD Hk. destruct (si_cons _ _ HD _ _ Hk) as [H1 H2].
  destruct (fin k) eqn:Hf.
  - destruct (H2 eq_refl) as (Hc & Hs & Hsrc & _). rewrite Hs, Hc.
    split; [|split; [lia|intros _; split; auto]].
    + rewrite firstn_all2; auto.
    + rewrite (si_prefix _ _ HD), Hsrc. rewrite app_nil_r. reflexivity.
  - destruct (H1 eq_refl) as (Hle & Hs). split; [auto|split; [|discriminate]].
    rewrite Hs, firstn_length. lia.
Qed.

Lemma sync_lazy_front src0 c : sync_inv src0 c -> c_items c <> [] ->
  exists i k, nth_error (c_cons c) i = Some k /\ seen k = c_items c.
Proof.
  intros HD Hne. destruct (si_front _ _ HD Hne) as (i & k & Hk & Hle). exists i, k. split; auto.
  destruct (sync_same_order _ _ _ _ HD Hk) as (Hs & _ & Hfin).
  destruct (fin k) eqn:Hf; [apply Hfin; auto|].
  rewrite Hs. apply firstn_all2; auto.
Qed.

(* ------------------------------------------------------------------------------------------ *)
(* a source answer wakes everybody: also for the executor's poll (clear_woken, then poll_next)  *)

Lemma Inv_wake_all_step script n s c s0 : Inv script n s -> s0 = s \/ s0 = clear_woken c s ->
  n_some s0 + n_none s0 < n_some (fst (poll_next s0 c)) + n_none (fst (poll_next s0 c)) ->
  pending_wakes (fst (poll_next s0 c)) = [] /\
  forall c' k', nth_error (cons (fst (poll_next s0 c))) c' = Some k' -> blocked k' = true -> woken k' = true.
Proof.
  intros HI Hs0 Hlt.
  assert (HW' : wake_inv None (fst (poll_next s0 c))).
  { destruct Hs0 as [->| ->].
    - apply (Inv_poll_next _ _ _ c HI).
    - apply (Inv_step _ _ _ (Poll c) HI). }
  assert (Hpw : pending_wakes (fst (poll_next s0 c)) = []).
  { revert Hlt. destruct (nth_error (cons s0) c) as [k|] eqn:Hk; [|rewrite poll_next_nohandle; auto; cbn [fst]; lia].
    rewrite (poll_next_eq _ _ _ Hk).
    destruct (Nat.compare (curr k) (length (items s0))); [destruct (src s0) as [|[x|] r]| |]; simpl_st; auto; lia. }
  split; auto. intros c' k' Hk' Hb. destruct (woken k') eqn:Hw; auto.
  destruct (wi_blocked _ _ HW' _ _ Hk') as (Hin & _); auto; [discriminate|]. rewrite Hpw in Hin. destruct Hin.
Qed.

(* ------------------------------------------------------------------------------------------ *)
(* the request loops of bundles.rs only use handle-level transitions                           *)

Fixpoint poll_n (m : nat) (s : astate) (c : nat) : astate :=
  match m with
  | O => s
  | S m' => poll_n m' (fst (poll_next s c)) c
  end.

Lemma request_poll_iter fuel answers : forall s c s' p,
  request_poll fuel answers s c = Done (s', p) -> exists m, 1 <= m <= fuel /\ s' = poll_n m s c.
Proof.
  induction fuel as [|f IH]; intros s c s' p; cbn; [discriminate|].
  destruct (poll_next s c) as [s1 p1] eqn:E.
  assert (E1 : s1 = fst (poll_next s c)) by (rewrite E; reflexivity).
  destruct p1 as [[x|]|].
  - destruct (answers x).
    + intros [= <- <-]. exists 1. split; [lia|]. cbn. auto.
    + intros H. destruct (IH _ _ _ _ H) as (m & Hm & ->). exists (S m). split; [lia|]. cbn. rewrite <- E1. reflexivity.
  - intros [= <- <-]. exists 1. split; [lia|]. cbn. auto.
  - intros [= <- <-]. exists 1. split; [lia|]. cbn. auto.
Qed.

Fixpoint next_n (m : nat) (c : cache) (i : nat) : cache :=
  match m with
  | O => c
  | S m' => next_n m' (cache_step c i) i
  end.

Lemma request_sync_iter fuel answers : forall c i c' r,
  request_sync fuel answers c i = Done (c', r) -> exists m, 1 <= m <= fuel /\ c' = next_n m c i.
Proof.
  induction fuel as [|f IH]; intros c i c' r; cbn; [discriminate|].
  destruct (cache_iter_next c i) as [c1 r1] eqn:E.
  assert (E1 : c1 = cache_step c i) by (unfold cache_step; rewrite E; reflexivity).
  destruct r1 as [x|].
  - destruct (answers x).
    + intros [= <- <-]. exists 1. split; [lia|]. cbn. auto.
    + intros H. destruct (IH _ _ _ _ H) as (m & Hm & ->). exists (S m). split; [lia|]. cbn. rewrite <- E1. reflexivity.
  - intros [= <- <-]. exists 1. split; [lia|]. cbn. auto.
Qed.

Lemma sumf_fin_ind_zero (l : list consumer) :
  (forall c k, nth_error l c = Some k -> fin k = false) -> sumf fin_ind l = 0.
Proof.
  induction l as [|x r IH]; intros H; cbn; auto.
  rewrite (fin_ind_false x (H 0 x eq_refl)). unfold sumf in IH. rewrite IH; auto.
  intros c k Hk. apply (H (S c)). exact Hk.
Qed.

Lemma Inv_lazy_depth script n s : Inv script n s ->
  (forall c k, nth_error (cons s) c = Some k -> fin k = false) -> items s <> [] ->
  exists c k, nth_error (cons s) c = Some k /\ n_some s + n_none s = curr k /\
              forall c' k', nth_error (cons s) c' = Some k' -> curr k' <= curr k.
Proof.
  intros (HD & HW & HL) Hnf Hne.
  destruct (di_front _ _ HD Hne) as (c & k & Hk & Hle).
  assert (Hcur : forall c' k', nth_error (cons s) c' = Some k' -> curr k' <= length (items s)).
  { intros c' k' Hk'. destruct (di_cons _ _ HD _ _ Hk') as [H1 _]. destruct (H1 (Hnf _ _ Hk')). auto. }
  exists c, k. split; auto. pose proof (Hcur _ _ Hk). split.
  - rewrite (di_some _ _ HD), (di_none _ _ HD), (sumf_fin_ind_zero _ Hnf). lia.
  - intros c' k' Hk'. specialize (Hcur _ _ Hk'). lia.
Qed.

End Proofs.

Arguments data_inv {A}.
Arguments wake_inv {A}.
Arguments rescuer {A}.
Arguments Inv {A}.
Arguments reachable {A}.
Arguments sync_inv {A}.
Arguments sreachable {A}.
Arguments poll_n {A}.
Arguments next_n {A}.

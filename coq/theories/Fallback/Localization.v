(* Fallback/Localization.v — model of fluent-fallback/src/localization.rs (property C18), together with
   Bundles::new of bundles.rs.  Definitions only; proofs are in Fallback/LocalizationProofs.v.

   struct Localization { bundles: OnceCell<Rc<Bundles<G>>>, generator: G, provider: P, sync: bool,
                         res_ids: FxHashSet<ResourceId> }

   * `res_ids` is a hash set whose element equality and hash look ONLY at `ResourceId::value`
     (types.rs: `impl PartialEq/Hash for ResourceId`), so two ids with the same value and different
     `ResourceType` are the same element; `HashSet::insert`/`extend`/`from_iter` keep the element that is
     already there (the first type wins).  Model: a list without repeated values, in insertion order
     (the order is not observable through a hash set; the correspondence run compares sorted contents).
   * `bundles` (OnceCell<Rc<Bundles>>) is `option bundles`; the identity of the Rc is the index of the
     generator call that built it (`bs_id`), because Bundles::new consults the generator exactly once,
     immediately: `generator.bundles_iter(provider.locales(), res_ids)` / `bundles_stream(..)`.
   * The generator is external: a Section variable `gen` applied to (stream?, locales, res_ids); every
     consultation is appended to the log `w_calls`.  The provider is a shared cell that the environment
     can change behind the Localization's back (`SetLocales`), as in the repository's tests.
   * Prefetch on a set of the wrong kind panics (bundles.rs prefetch_sync / prefetch_async).         *)
From FluentV Require Export Base.Bytes Base.Outcome.

Definition locale := bytes.

(* types.rs ResourceId { value, resource_type };  r_required = (resource_type == Required) *)
Record resource_id := mkRes { r_value : bytes; r_required : bool }.

(* types.rs impl PartialEq for ResourceId *)
Definition rid_eqb (a b : resource_id) : bool := bytes_eqb (r_value a) (r_value b).

(* FxHashSet<ResourceId> *)
Definition res_set := list resource_id.
Definition set_contains (s : res_set) (r : resource_id) : bool := existsb (rid_eqb r) s.
(* HashSet::insert: the set is not modified when an equal element is present *)
Definition set_insert (s : res_set) (r : resource_id) : res_set := if set_contains s r then s else s ++ [r].
(* Extend::extend, FromIterator::from_iter: insert one by one *)
Definition set_extend (s : res_set) (rs : list resource_id) : res_set := fold_left set_insert rs s.
Definition set_from_iter (rs : list resource_id) : res_set := set_extend [] rs.
(* retain(|x| !res_id.eq(x)) *)
Definition set_remove (s : res_set) (r : resource_id) : res_set := filter (fun x => negb (rid_eqb r x)) s.
(* retain(|x| !res_ids.contains(x))         (Vec::contains uses the same PartialEq) *)
Definition set_remove_all (s : res_set) (rs : list resource_id) : res_set :=
  filter (fun x => negb (existsb (fun r => rid_eqb r x) rs)) s.

Section Localization.
Variable B : Type.                                                   (* G::Iter / G::Stream, behind the cache *)
Variable gen : bool -> list locale -> res_set -> B.                   (* stream? -> locales -> res_ids -> source *)

(* one consultation of the generator: bundles_stream? , provider.locales(), res_ids *)
Definition gen_call := (bool * list locale * res_set)%type.

(* bundles.rs Bundles<G> (BundlesInner::Iter | Stream) *)
Record bundles := mkBundles { bs_id : nat; bs_sync : bool; bs_inner : B }.

Record localization := mkLoc { l_bundles : option bundles; l_sync : bool; l_res_ids : res_set }.

(* the Localization, the provider's shared cell, and the generator's log *)
Record world := mkWorld {
  w_loc : localization;
  w_locales : list locale;
  w_calls : list gen_call;
  w_prefetches : list (nat * bool) }.                                 (* (set id, async?) hooks invoked *)

Definition with_loc (w : world) (l : localization) : world :=
  mkWorld l (w_locales w) (w_calls w) (w_prefetches w).

(* localization.rs Localization::with_env *)
Definition with_env (res_ids : list resource_id) (sync : bool) : localization :=
  mkLoc None sync (set_from_iter res_ids).

(* localization.rs Localization::is_sync *)
Definition is_sync (l : localization) : bool := l_sync l.

(* localization.rs Localization::on_change:  self.bundles.take() *)
Definition on_change (l : localization) : localization := mkLoc None (l_sync l) (l_res_ids l).

(* localization.rs Localization::add_resource_id *)
Definition add_resource_id (l : localization) (r : resource_id) : localization :=
  on_change (mkLoc (l_bundles l) (l_sync l) (set_insert (l_res_ids l) r)).

(* localization.rs Localization::add_resource_ids *)
Definition add_resource_ids (l : localization) (rs : list resource_id) : localization :=
  on_change (mkLoc (l_bundles l) (l_sync l) (set_extend (l_res_ids l) rs)).

(* localization.rs Localization::remove_resource_id  -> (self, self.res_ids.len()) *)
Definition remove_resource_id (l : localization) (r : resource_id) : localization * nat :=
  let l' := on_change (mkLoc (l_bundles l) (l_sync l) (set_remove (l_res_ids l) r)) in
  (l', length (l_res_ids l')).

(* localization.rs Localization::remove_resource_ids *)
Definition remove_resource_ids (l : localization) (rs : list resource_id) : localization * nat :=
  let l' := on_change (mkLoc (l_bundles l) (l_sync l) (set_remove_all (l_res_ids l) rs)) in
  (l', length (l_res_ids l')).

(* localization.rs Localization::set_async *)
Definition set_async (l : localization) : localization :=
  if l_sync l then on_change (mkLoc (l_bundles l) false (l_res_ids l)) else l.

(* bundles.rs Bundles::new(sync, res_ids, &generator, &provider) *)
Definition bundles_new (sync : bool) (res_ids : res_set) (w : world) : bundles * world :=
  let locales := w_locales w in                                        (* provider.locales() *)
  let stream := negb sync in
  (mkBundles (length (w_calls w)) sync (gen stream locales res_ids),
   mkWorld (w_loc w) (w_locales w) (w_calls w ++ [(stream, locales, res_ids)]) (w_prefetches w)).

(* localization.rs Localization::bundles:  self.bundles.get_or_init(|| Rc::new(Bundles::new(..))) *)
Definition get_bundles (w : world) : bundles * world :=
  match l_bundles (w_loc w) with
  | Some b => (b, w)
  | None =>
      let '(b, w') := bundles_new (l_sync (w_loc w)) (l_res_ids (w_loc w)) w in
      (b, with_loc w' (mkLoc (Some b) (l_sync (w_loc w)) (l_res_ids (w_loc w))))
  end.

(* localization.rs Localization::prefetch_sync + bundles.rs Bundles::prefetch_sync *)
Definition prefetch_sync (w : world) : outcome world :=
  let '(b, w) := get_bundles w in
  if bs_sync b then Done (mkWorld (w_loc w) (w_locales w) (w_calls w) (w_prefetches w ++ [(bs_id b, false)]))
  else Panic "Can't prefetch a sync bundle set asynchronously".

(* localization.rs Localization::prefetch_async + bundles.rs Bundles::prefetch_async *)
Definition prefetch_async (w : world) : outcome world :=
  let '(b, w) := get_bundles w in
  if bs_sync b then Panic "Can't prefetch a async bundle set synchronously"
  else Done (mkWorld (w_loc w) (w_locales w) (w_calls w) (w_prefetches w ++ [(bs_id b, true)])).

(* ---------------------------------------------------------------------------------------- *)
(* histories *)
Inductive op :=
| AddResourceId (r : resource_id)
| AddResourceIds (rs : list resource_id)
| RemoveResourceId (r : resource_id)
| RemoveResourceIds (rs : list resource_id)
| SetAsync
| OnChange
| SetLocales (ls : list locale)          (* the environment changes the provider's cell; no notification *)
| PrefetchSync
| PrefetchAsync
| GetBundles.                            (* a request: loc.bundles() *)

(* what an operation returns to the caller *)
Inductive op_result :=
| RUnit
| RLen (n : nat)
| RBundles (b : bundles).

Definition step (w : world) (o : op) : outcome (world * op_result) :=
  match o with
  | AddResourceId r => Done (with_loc w (add_resource_id (w_loc w) r), RUnit)
  | AddResourceIds rs => Done (with_loc w (add_resource_ids (w_loc w) rs), RUnit)
  | RemoveResourceId r => let '(l, n) := remove_resource_id (w_loc w) r in Done (with_loc w l, RLen n)
  | RemoveResourceIds rs => let '(l, n) := remove_resource_ids (w_loc w) rs in Done (with_loc w l, RLen n)
  | SetAsync => Done (with_loc w (set_async (w_loc w)), RUnit)
  | OnChange => Done (with_loc w (on_change (w_loc w)), RUnit)
  | SetLocales ls => Done (mkWorld (w_loc w) ls (w_calls w) (w_prefetches w), RUnit)
  | PrefetchSync => let* w' := prefetch_sync w in Done (w', RUnit)
  | PrefetchAsync => let* w' := prefetch_async w in Done (w', RUnit)
  | GetBundles => let '(b, w') := get_bundles w in Done (w', RBundles b)
  end.

Fixpoint run (w : world) (ops : list op) : outcome (world * list op_result) :=
  match ops with
  | [] => Done (w, [])
  | o :: ops' =>
      let* (w1, r) := step w o in
      let* (w2, rs) := run w1 ops' in
      Done (w2, r :: rs)
  end.

(* a Localization just built with Localization::with_env(res_ids, sync, provider, generator), the
   provider holding `locales`, the generator not consulted yet *)
Definition fresh (res_ids : list resource_id) (sync : bool) (locales : list locale) : world :=
  mkWorld (with_env res_ids sync) locales [] [].

(* ---------------------------------------------------------------------------------------- *)
(* specification side *)

(* the discipline the property assumes: after the environment changed the provider's locales, the next
   thing that happens to the Localization before any request is the change notification.
   `notified d ops` = Some d'  : the history respects it; d / d' = "a provider change is still unannounced" *)
Fixpoint notified (d : bool) (ops : list op) : option bool :=
  match ops with
  | [] => Some d
  | SetLocales _ :: r => notified true r
  | OnChange :: r => notified false r
  | (GetBundles | PrefetchSync | PrefetchAsync) :: r => if d then None else notified d r
  | _ :: r => notified d r
  end.

(* operations that do not change what a request must see *)
Definition is_request (o : op) : bool :=
  match o with GetBundles | PrefetchSync | PrefetchAsync => true | _ => false end.

End Localization.

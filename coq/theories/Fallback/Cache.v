(* Fallback/Cache.v — model of fluent-fallback/src/cache.rs (Cache / CacheIter, AsyncCache /
   AsyncCacheStream) and of the request loops of bundles.rs that consume them.  Definitions only.

   Items (bundles) are an arbitrary type A: the cache never looks inside an item.

   The wrapped source.  A *fused* iterator / stream is a script: a list of steps
       SReady x   the next poll returns Ready(Some x)
       SPending   the next poll returns Pending and keeps ONLY the waker of that poll (the last
                  registered waker); the source stays pending until the environment step
                  `SourceReady`, which consumes the SPending and wakes that one waker
   and past the end of the script every poll returns Ready(None) for ever (fused).
   For the synchronous Cache the source is the plain list of items (Iterator::next, fused).

   ChunkyVec is modelled as an append-only list (`push_get` = append, reference to the new last
   element), RefCell / PinCell as plain state (no re-entrancy: the source never calls the cache).

   Consumers are numbered 0..n-1 (the CacheIter / AsyncCacheStream handles; one per request).  A
   handle that has not been polled yet is indistinguishable from one not yet created, so a fixed
   number of handles covers requests that start at any time.

   Ghost state (not in the Rust structs, never read by the code paths): per consumer the sequence
   of items it was handed (`seen`), whether it was told None (`fin`), whether its last poll returned
   Pending (`blocked`), whether its waker has been woken and it has not been polled since
   (`woken`); per cache the counters of source polls and the log of pulled items.            *)
From FluentV Require Export Base.Outcome.

Section Cache.
Variable A : Type.

(* ------------------------------------------------------------------------------------------ *)
(* consumers (handles)                                                                         *)

Record consumer := mkCons {
  curr : nat;            (* CacheIter.curr / AsyncCacheStream.curr *)
  blocked : bool;        (* ghost: last poll returned Pending *)
  woken : bool;          (* ghost: waker woken, not polled since *)
  fin : bool;            (* ghost: has been told None *)
  seen : list A          (* ghost: items handed out to this consumer, in order *)
}.

Definition new_consumer : consumer := mkCons 0 false false false [].

Definition set_curr (n : nat) (c : consumer) := mkCons n (blocked c) (woken c) (fin c) (seen c).
Definition set_blocked (b : bool) (c : consumer) := mkCons (curr c) b (woken c) (fin c) (seen c).
Definition set_woken (b : bool) (c : consumer) := mkCons (curr c) (blocked c) b (fin c) (seen c).
(* the consumer receives the result of next()/poll_next(): Some x is appended to what it saw *)
Definition deliver (r : option A) (c : consumer) :=
  match r with
  | Some x => mkCons (curr c) false (woken c) (fin c) (seen c ++ [x])
  | None => mkCons (curr c) false (woken c) true (seen c)
  end.

Fixpoint upd {X} (n : nat) (f : X -> X) (l : list X) : list X :=
  match l, n with
  | [], _ => []
  | x :: r, O => f x :: r
  | x :: r, S n' => x :: upd n' f r
  end.

(* Waker::wake of consumer w *)
Definition wake (w : nat) (cs : list consumer) : list consumer := upd w (set_woken true) cs.
(* for waker in wakers { waker.wake() } *)
Definition wake_all (ws : list nat) (cs : list consumer) : list consumer :=
  fold_left (fun cs w => wake w cs) ws cs.

(* ChunkyVec::push_get: append, reference to the element just pushed *)
Definition push_get (items : list A) (x : A) : list A * A := (items ++ [x], x).

(* ------------------------------------------------------------------------------------------ *)
(* synchronous Cache                                                                           *)

Record cache := mkCache {
  c_iter : list A;        (* Cache.iter: what the wrapped (fused) iterator still yields *)
  c_items : list A;       (* Cache.items *)
  c_calls : nat;          (* ghost: number of iter.next() calls *)
  c_cons : list consumer  (* the CacheIter handles *)
}.

(* cache.rs Cache::new + IntoIterator::into_iter (n handles, curr = 0) *)
Definition cache_new (src : list A) (n : nat) : cache := mkCache src [] 0 (repeat new_consumer n).

(* Iterator::next of the wrapped fused iterator *)
Definition iter_next (it : list A) : list A * option A :=
  match it with
  | [] => ([], None)
  | x :: r => (r, Some x)
  end.

(* cache.rs CacheIter::next  (handle i) *)
Definition cache_iter_next (c : cache) (i : nat) : cache * option A :=
  match nth_error (c_cons c) i with
  | None => (c, None)                      (* no such handle *)
  | Some it =>
      let cache_len := length (c_items c) in
      match Nat.compare (curr it) cache_len with
      | Lt =>
          (* Cached value: self.curr += 1; self.cache.get(self.curr - 1) *)
          let curr' := S (curr it) in
          let r := nth_error (c_items c) (curr' - 1) in
          (mkCache (c_iter c) (c_items c) (c_calls c) (upd i (fun k => deliver r (set_curr curr' k)) (c_cons c)), r)
      | Eq =>
          (* let item = self.cache.iter.borrow_mut().next(); self.curr += 1; *)
          let '(it', item) := iter_next (c_iter c) in
          let curr' := S (curr it) in
          match item with
          | Some x =>
              let '(items', r) := push_get (c_items c) x in
              (mkCache it' items' (S (c_calls c)) (upd i (fun k => deliver (Some r) (set_curr curr' k)) (c_cons c)), Some r)
          | None =>
              (mkCache it' (c_items c) (S (c_calls c)) (upd i (fun k => deliver None (set_curr curr' k)) (c_cons c)), None)
          end
      | Gt =>
          (* Ran off the end of the cache *)
          (mkCache (c_iter c) (c_items c) (c_calls c) (upd i (deliver None) (c_cons c)), None)
      end
  end.

Definition cache_step (c : cache) (i : nat) : cache := fst (cache_iter_next c i).
(* a history of next() calls on the handles, in any interleaving *)
Definition cache_run (c : cache) (h : list nat) : cache := fold_left cache_step h c.

(* ------------------------------------------------------------------------------------------ *)
(* AsyncCache as a labelled transition system                                                  *)

Inductive sstep := SReady (x : A) | SPending.

Fixpoint src_items (s : list sstep) : list A :=
  match s with
  | [] => []
  | SReady x :: r => x :: src_items r
  | SPending :: r => src_items r
  end.

Inductive poll (X : Type) := Ready (x : X) | Pending.
Arguments Ready {X} x.
Arguments Pending {X}.

Record astate := mkA {
  src : list sstep;            (* AsyncCache.stream: the rest of the script *)
  waiting : option nat;        (* the waker the source holds (Some only while it is pending) *)
  items : list A;              (* AsyncCache.items *)
  pending_wakes : list nat;    (* AsyncCache.pending_wakes *)
  cons : list consumer;        (* the AsyncCacheStream handles *)
  n_polls : nat;               (* ghost: polls of the source *)
  n_some : nat;                (* ghost: ... that returned Ready(Some _) *)
  n_none : nat;                (* ghost: ... that returned Ready(None) *)
  pulled : list A              (* ghost: the items the source handed out, in order *)
}.

(* cache.rs AsyncCache::new + AsyncCache::stream (n handles, curr = 0) *)
Definition init (script : list sstep) (n : nat) : astate :=
  mkA script None [] [] (repeat new_consumer n) 0 0 0 [].

Definition set_cons (cs : list consumer) (s : astate) : astate :=
  mkA (src s) (waiting s) (items s) (pending_wakes s) cs (n_polls s) (n_some s) (n_none s) (pulled s).
Definition set_pending_wakes (pw : list nat) (s : astate) : astate :=
  mkA (src s) (waiting s) (items s) pw (cons s) (n_polls s) (n_some s) (n_none s) (pulled s).
Definition set_items (it : list A) (s : astate) : astate :=
  mkA (src s) (waiting s) it (pending_wakes s) (cons s) (n_polls s) (n_some s) (n_none s) (pulled s).

(* S::poll_next(cx) of the wrapped scripted stream; cx.waker() is consumer c's waker *)
Definition source_poll_next (s : astate) (c : nat) : astate * poll (option A) :=
  match src s with
  | SReady x :: r =>
      (mkA r (waiting s) (items s) (pending_wakes s) (cons s) (S (n_polls s)) (S (n_some s)) (n_none s) (pulled s ++ [x]),
       Ready (Some x))
  | SPending :: _ =>
      (mkA (src s) (Some c) (items s) (pending_wakes s) (cons s) (S (n_polls s)) (n_some s) (n_none s) (pulled s),
       Pending)
  | [] =>
      (mkA [] (waiting s) (items s) (pending_wakes s) (cons s) (S (n_polls s)) (n_some s) (S (n_none s)) (pulled s),
       Ready None)
  end.

(* cache.rs AsyncCache::poll_next_item *)
Definition poll_next_item (s : astate) (c : nat) : astate * poll (option A) :=
  let '(s1, p) := source_poll_next s c in
  match p with
  | Ready _ =>
      (* if poll.is_ready() { let wakers = take(pending_wakes); for waker in wakers { waker.wake() } } *)
      let wakers := pending_wakes s1 in
      (set_cons (wake_all wakers (cons s1)) (set_pending_wakes [] s1), p)
  | Pending =>
      (* else { pending_wakes.push(cx.waker().clone()) } *)
      (set_pending_wakes (pending_wakes s1 ++ [c]) s1, p)
  end.

(* cache.rs AsyncCacheStream::poll_next  (handle c, polled with its own waker) *)
Definition poll_next (s : astate) (c : nat) : astate * poll (option A) :=
  match nth_error (cons s) c with
  | None => (s, Pending)                   (* no such handle *)
  | Some k =>
      let cache_len := length (items s) in
      match Nat.compare (curr k) cache_len with
      | Lt =>
          (* Cached value: self.curr += 1; self.cache.get(self.curr - 1) *)
          let curr' := S (curr k) in
          let r := nth_error (items s) (curr' - 1) in
          (set_cons (upd c (fun k => deliver r (set_curr curr' k)) (cons s)) s, Ready r)
      | Eq =>
          (* let item = ready!(self.cache.poll_next_item(cx)); *)
          let '(s1, p) := poll_next_item s c in
          match p with
          | Pending => (set_cons (upd c (set_blocked true) (cons s1)) s1, Pending)
          | Ready item =>
              (* self.curr += 1; *)
              let curr' := S (curr k) in
              match item with
              | Some x =>
                  let '(items', r) := push_get (items s1) x in
                  (set_cons (upd c (fun k => deliver (Some r) (set_curr curr' k)) (cons s1)) (set_items items' s1),
                   Ready (Some r))
              | None =>
                  (set_cons (upd c (fun k => deliver None (set_curr curr' k)) (cons s1)) s1, Ready None)
              end
          end
      | Gt =>
          (* Ran off the end of the cache *)
          (set_cons (upd c (deliver None) (cons s)) s, Ready None)
      end
  end.

(* executor: consumer c's task is polled, which consumes its wake-up (if any) *)
Definition clear_woken (c : nat) (s : astate) : astate := set_cons (upd c (set_woken false) (cons s)) s.

(* environment: the pending source becomes ready and wakes the one waker it holds *)
Definition source_ready (s : astate) : astate :=
  match waiting s, src s with
  | Some w, SPending :: r =>
      mkA r None (items s) (pending_wakes s) (wake w (cons s)) (n_polls s) (n_some s) (n_none s) (pulled s)
  | _, _ => s
  end.

Inductive action := Poll (c : nat) | SourceReady.

Definition step (s : astate) (a : action) : astate :=
  match a with
  | Poll c => fst (poll_next (clear_woken c s) c)
  | SourceReady => source_ready s
  end.

(* a schedule: any interleaving of polls (spurious ones included) and source wake-ups *)
Definition run (s : astate) (sched : list action) : astate := fold_left step sched s.

(* ------------------------------------------------------------------------------------------ *)
(* fairness vocabulary (used by the progress theorem; executable so that it can be run)        *)

(* c's task will poll it: it is not finished and either is not waiting or has been woken *)
Definition runnable (k : consumer) : bool := negb (fin k) && (negb (blocked k) || woken k).

(* the steps a fair environment owes: poll a runnable consumer; fire a pending source *)
Definition fair (s : astate) (a : action) : bool :=
  match a with
  | Poll c => match nth_error (cons s) c with Some k => runnable k | None => false end
  | SourceReady => match waiting s, src s with Some _, SPending :: _ => true | _, _ => false end
  end.

Definition all_done (s : astate) : bool := forallb fin (cons s).

Fixpoint count_fair (s : astate) (sched : list action) : nat :=
  match sched with
  | [] => 0
  | a :: r => (if fair s a then 1 else 0) + count_fair (step s a) r
  end.

Fixpoint find_idx {X} (p : X -> bool) (l : list X) (i : nat) : option nat :=
  match l with
  | [] => None
  | x :: r => if p x then Some i else find_idx p r (S i)
  end.

(* a fair scheduler: first runnable consumer, else fire the source *)
Definition pick (s : astate) : action :=
  match find_idx runnable (cons s) 0 with
  | Some c => Poll c
  | None => SourceReady
  end.

Fixpoint fair_run (fuel : nat) (s : astate) : list action :=
  match fuel with
  | O => []
  | S f => if all_done s then [] else let a := pick s in a :: fair_run f (step s a)
  end.

Definition sumf {X} (g : X -> nat) (l : list X) : nat := fold_right (fun x acc => g x + acc) 0 l.

(* the decreasing variant: T = total number of items of the script *)
Definition status_weight (k : consumer) : nat :=
  if blocked k then (if woken k then 1 else 0) else 2.
Definition cons_weight (n T : nat) (k : consumer) : nat :=
  if fin k then 0 else S n + 3 * (S T - curr k) + status_weight k.
Definition variant_at (n T : nat) (s : astate) : nat :=
  (n + 4) * length (src s) + sumf (cons_weight n T) (cons s).
Definition variant (s : astate) : nat :=
  variant_at (length (cons s)) (length (items s) + length (src_items (src s))) s.

(* ------------------------------------------------------------------------------------------ *)
(* bundles.rs: the request loops over a handle                                                 *)
(*   `while let Some(bundle) = bundle_stream.next().await { ...; if <all keys answered> { return / break } }`
   `answers x` = "bundle x answers everything the request still needs" (decided by the bundle
   contents, which the cache never looks at).                                                  *)

(* bundles.rs format_value_from_stream / format_values_from_stream / format_messages_from_stream:
   one poll of the request future.  Ready (Some x): completed at bundle x; Ready None: completed,
   bundles exhausted; Pending: suspended in `.next().await`.                                   *)
Fixpoint request_poll (fuel : nat) (answers : A -> bool) (s : astate) (c : nat) : outcome (astate * poll (option A)) :=
  match fuel with
  | O => OutOfFuel
  | S f =>
      let '(s1, p) := poll_next s c in
      match p with
      | Pending => Done (s1, Pending)
      | Ready None => Done (s1, Ready None)
      | Ready (Some x) => if answers x then Done (s1, Ready (Some x)) else request_poll f answers s1 c
      end
  end.

(* the executor polls the future of request c once (its wake-up, if any, is consumed).
   bundles.rs format_values_from_inner! / format_messages_from_inner! start with
   `if $keys.is_empty() { return Vec::new(); }`: a batch with no keys (`no_keys`) completes at once; its
   handle exists (`stream.stream()`) but is never polled, holds no waker, and nothing changes. *)
Definition request_step (fuel : nat) (no_keys : bool) (answers : A -> bool) (s : astate) (c : nat)
  : outcome (astate * poll (option A)) :=
  if no_keys then Done (s, Ready None)
  else request_poll fuel answers (clear_woken c s) c.

(* bundles.rs format_value_from_iter / format_values_from_iter / format_messages_from_iter: the loop *)
Fixpoint request_sync (fuel : nat) (answers : A -> bool) (c : cache) (i : nat) : outcome (cache * option A) :=
  match fuel with
  | O => OutOfFuel
  | S f =>
      let '(c1, r) := cache_iter_next c i in
      match r with
      | None => Done (c1, None)
      | Some x => if answers x then Done (c1, Some x) else request_sync f answers c1 i
      end
  end.

(* ... and the whole synchronous request, with the early return of the batch macros for an empty key list *)
Definition request_sync_step (fuel : nat) (no_keys : bool) (answers : A -> bool) (c : cache) (i : nat)
  : outcome (cache * option A) :=
  if no_keys then Done (c, None)
  else request_sync fuel answers c i.

End Cache.

Arguments mkCons {A}.
Arguments curr {A}.
Arguments blocked {A}.
Arguments woken {A}.
Arguments fin {A}.
Arguments seen {A}.
Arguments new_consumer {A}.
Arguments SReady {A}.
Arguments SPending {A}.
Arguments Ready {X} x.
Arguments Pending {X}.
Arguments set_curr {A}.
Arguments set_blocked {A}.
Arguments set_woken {A}.
Arguments deliver {A}.
Arguments wake {A}.
Arguments wake_all {A}.
Arguments push_get {A}.
Arguments mkCache {A}.
Arguments c_iter {A}.
Arguments c_items {A}.
Arguments c_calls {A}.
Arguments c_cons {A}.
Arguments cache_new {A}.
Arguments iter_next {A}.
Arguments cache_iter_next {A}.
Arguments cache_step {A}.
Arguments cache_run {A}.
Arguments src_items {A}.
Arguments mkA {A}.
Arguments src {A}.
Arguments waiting {A}.
Arguments items {A}.
Arguments pending_wakes {A}.
Arguments cons {A}.
Arguments n_polls {A}.
Arguments n_some {A}.
Arguments n_none {A}.
Arguments pulled {A}.
Arguments init {A}.
Arguments set_cons {A}.
Arguments set_pending_wakes {A}.
Arguments set_items {A}.
Arguments source_poll_next {A}.
Arguments poll_next_item {A}.
Arguments poll_next {A}.
Arguments clear_woken {A}.
Arguments source_ready {A}.
Arguments step {A}.
Arguments run {A}.
Arguments runnable {A}.
Arguments fair {A}.
Arguments all_done {A}.
Arguments count_fair {A}.
Arguments pick {A}.
Arguments fair_run {A}.
Arguments status_weight {A}.
Arguments cons_weight {A}.
Arguments variant_at {A}.
Arguments variant {A}.
Arguments request_poll {A}.
Arguments request_step {A}.
Arguments request_sync {A}.
Arguments request_sync_step {A}.

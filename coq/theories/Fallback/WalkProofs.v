(* Fallback/WalkProofs.v — the fallback walk of bundles.rs against its specification (property C16).

   Plan.  (1) Under `has_locale` the outcome monad disappears.  (2) A generic batch walk `gwhile`
   over an abstract per-key step is characterised through the invariant "cell i = the cell of key i
   after the bundles visited so far" (`cell_after`), giving results, error groups and the number of
   visited bundles.  (3) format_values / format_messages are instances; format_value is the batch
   walk of the one-key list (`single_batch1`, proved without any hypothesis: the panics coincide
   too).  (4) The first-answer statements are read off `groups` on a one-key list.                 *)
From FluentV Require Import Base.Bytes Base.Outcome Fallback.Walk.
From Coq Require Import Lia.

Section WalkProofs.
Context {Pat Args RErr BErr : Type}.
Variable fmt : bundle Pat -> Pat -> option Args -> bytes * list RErr.

Local Notation bres := (bundle_result Pat BErr).
Local Notation err := (lerr RErr BErr).
Local Notation key := (key Args).
Local Notation bundle_of := (bundle_of Pat BErr).
Local Notation carried := (carried Pat RErr BErr).
Local Notation has_locale := (has_locale Pat BErr).
Local Notation loc_of := (loc_of Pat BErr).
Local Notation has_message := (has_message Pat Args BErr).
Local Notation value_pattern := (value_pattern Pat Args BErr).
Local Notation has_value := (has_value Pat Args BErr).
Local Notation resolver_entry := (resolver_entry Pat RErr BErr).
Local Notation value_entry := (value_entry Pat Args RErr BErr fmt).
Local Notation message_entry := (message_entry Pat Args RErr BErr fmt).
Local Notation first_value := (first_value Pat Args RErr BErr fmt).
Local Notation first_message := (first_message Pat Args RErr BErr fmt).
Local Notation value_final := (value_final Pat Args RErr BErr).
Local Notation message_final := (message_final Pat Args RErr BErr).
Local Notation answered := (answered Pat Args BErr).
Local Notation group := (group Pat Args RErr BErr).
Local Notation groups := (groups Pat Args RErr BErr).
Local Notation visits := (visits Pat Args BErr).
Local Notation batch_visits := (batch_visits Pat Args BErr).
Local Notation fmb := (format_message_from_bundle Pat Args RErr fmt).

Definition all_wf (seq : list bres) : Prop := Forall has_locale seq.

(* ---------------------------------------------------------------------------------------- *)
(* 1. basics *)

Lemma unwrap_bundle_eq (r : bres) (errors : list err) :
  unwrap_bundle Pat RErr BErr r errors = (bundle_of r, errors ++ carried r).
Proof. destruct r; cbn; [rewrite app_nil_r|]; reflexivity. Qed.

Lemma locale0_wf (r : bres) : has_locale r -> locale0 Pat (bundle_of r) = Done (loc_of r).
Proof.
  unfold has_locale, locale0, loc_of. destruct (b_locales Pat (bundle_of r)); [congruence | reflexivity].
Qed.

Lemma push_resolver_wf (r : bres) id fe (errors : list err) :
  has_locale r ->
  push_resolver Pat RErr BErr (bundle_of r) id fe errors = Done (errors ++ resolver_entry r id fe).
Proof.
  intros H. unfold push_resolver, resolver_entry. destruct (is_nil fe).
  - rewrite app_nil_r. reflexivity.
  - rewrite (locale0_wf r H). reflexivity.
Qed.

Lemma flat_map_ext_in' {X Y} (f g : X -> list Y) l :
  (forall x, In x l -> f x = g x) -> flat_map f l = flat_map g l.
Proof.
  induction l as [|x l IH]; intros H; cbn; [reflexivity|].
  rewrite (H x (or_introl eq_refl)), IH; [reflexivity|]. intros y Hy. apply H. right. exact Hy.
Qed.

Lemma repeat_map {X Y} (x : X) (l : list Y) : repeat x (length l) = map (fun _ => x) l.
Proof. induction l; cbn; congruence. Qed.

(* ---------------------------------------------------------------------------------------- *)
(* 2. the generic batch walk *)
Section Generic.
Variable C : Type.
Variable present : C -> bool.
Variable kstep : bres -> key -> C -> C.          (* new cell of a key that is not yet present *)
Variable hit : bres -> key -> bool.              (* does this bundle answer the key *)
Variable entry : bres -> key -> list err.        (* what it adds to the error list when asked *)
Variable init : C.
Hypothesis kstep_present : forall r k c, present c = false -> present (kstep r k c) = hit r k.
Hypothesis init_absent : present init = false.

Definition kapply (r : bres) (k : key) (c : C) : C := if present c then c else kstep r k c.

Fixpoint gfor (r : bres) (keys : list key) (cells : list C) : list C * bool * list err :=
  match keys, cells with
  | k :: keys', c :: cells' =>
      let '(cs, m, e) := gfor r keys' cells' in
      if present c then (c :: cs, m, e) else (kstep r k c :: cs, negb (hit r k) || m, entry r k ++ e)
  | _, _ => ([], false, [])
  end.

Fixpoint gwhile (rest : list bres) (keys : list key) (cells : list C) : list C * list err * nat :=
  match rest with
  | [] => (cells, [], 0)
  | r :: rest' =>
      let '(cs, m, e) := gfor r keys cells in
      if negb m then (cs, carried r ++ e, 1)
      else let '(cs', e', n) := gwhile rest' keys cs in (cs', carried r ++ e ++ e', S n)
  end.

Definition cell_after (pre : list bres) (k : key) : C := fold_left (fun c r => kapply r k c) pre init.

Lemma cell_after_snoc pre r k : cell_after (pre ++ [r]) k = kapply r k (cell_after pre k).
Proof. unfold cell_after. rewrite fold_left_app. reflexivity. Qed.

Lemma answered_snoc pre r k : answered hit (pre ++ [r]) k = answered hit pre k || hit r k.
Proof. unfold Walk.answered. rewrite existsb_app. cbn. rewrite orb_false_r. reflexivity. Qed.

Lemma present_cell_after pre k : present (cell_after pre k) = answered hit pre k.
Proof.
  induction pre as [|r pre IH] using rev_ind.
  - cbn. exact init_absent.
  - rewrite cell_after_snoc, answered_snoc. unfold kapply.
    destruct (present (cell_after pre k)) eqn:E.
    + rewrite E, <- IH. reflexivity.
    + rewrite kstep_present by exact E. rewrite <- IH. reflexivity.
Qed.

Lemma gfor_complete r keys cells cs e :
  length cells = length keys -> gfor r keys cells = (cs, false, e) -> forallb present cs = true.
Proof.
  revert cells cs e. induction keys as [|k keys IH]; intros [|c cells] cs e Hl H; cbn in *; try discriminate.
  - inversion H. reflexivity.
  - destruct (gfor r keys cells) as [[cs' m'] e'] eqn:G.
    destruct (present c) eqn:P.
    + inversion H; subst. cbn. rewrite P. eapply IH; [|exact G]. lia.
    + inversion H as [[H1 H2 H3]]. apply orb_false_elim in H2 as [Hh Hm]. subst m'.
      cbn. rewrite kstep_present by exact P. apply negb_false_iff in Hh. rewrite Hh.
      eapply IH; [|exact G]. lia.
Qed.

Lemma gfor_spec r pre keys :
  gfor r keys (map (cell_after pre) keys) =
    (map (cell_after (pre ++ [r])) keys,
     negb (forallb (answered hit (pre ++ [r])) keys),
     flat_map (fun k => if answered hit pre k then [] else entry r k) keys).
Proof.
  induction keys as [|k keys IH]; cbn; [reflexivity|].
  rewrite IH. rewrite cell_after_snoc, answered_snoc. unfold kapply.
  rewrite <- (present_cell_after pre k).
  destruct (present (cell_after pre k)) eqn:P; cbn; [reflexivity|].
  rewrite negb_andb. reflexivity.
Qed.

Lemma gwhile_spec rest : forall pre keys,
  gwhile rest keys (map (cell_after pre) keys) =
    (map (cell_after (pre ++ firstn (visits hit pre rest keys) rest)) keys,
     groups hit entry pre (firstn (visits hit pre rest keys) rest) keys,
     visits hit pre rest keys).
Proof.
  induction rest as [|r rest IH]; intros pre keys; cbn [gwhile Walk.visits].
  - cbn. rewrite app_nil_r. reflexivity.
  - rewrite gfor_spec. rewrite negb_involutive.
    destruct (forallb (answered hit (pre ++ [r])) keys) eqn:F.
    + cbn. rewrite app_nil_r. reflexivity.
    + rewrite IH. cbn [firstn Walk.groups]. unfold Walk.group.
      rewrite <- !app_assoc. cbn [app]. reflexivity.
Qed.

(* the walk stops early only when every key is answered *)
Lemma visits_stop rest : forall pre keys,
  visits hit pre rest keys = length rest \/
  forallb (answered hit (pre ++ firstn (visits hit pre rest keys) rest)) keys = true.
Proof.
  induction rest as [|r rest IH]; intros pre keys; cbn [Walk.visits]; [left; reflexivity|].
  destruct (forallb (answered hit (pre ++ [r])) keys) eqn:F.
  - right. cbn. exact F.
  - destruct (IH (pre ++ [r]) keys) as [H|H].
    + left. cbn. congruence.
    + right. cbn [firstn]. rewrite <- app_assoc in H. exact H.
Qed.

Lemma visits_le rest : forall pre keys, visits hit pre rest keys <= length rest.
Proof.
  induction rest as [|r rest IH]; intros pre keys; cbn; [lia|].
  destruct (forallb _ keys); [lia|]. specialize (IH (pre ++ [r]) keys). lia.
Qed.

(* did the loop leave through `break` (format_messages' is_complete) *)
Fixpoint gcomplete (rest : list bres) (keys : list key) (cells : list C) : bool :=
  match rest with
  | [] => false
  | r :: rest' => let '(cs, m, e) := gfor r keys cells in if negb m then true else gcomplete rest' keys cs
  end.

Lemma gfor_length r keys : forall cells,
  length cells = length keys -> length (fst (fst (gfor r keys cells))) = length keys.
Proof.
  induction keys as [|k keys IH]; intros [|c cells] Hl; cbn in *; try discriminate; [reflexivity|].
  specialize (IH cells). destruct (gfor r keys cells) as [[cs m] e]. cbn in *.
  destruct (present c); cbn; rewrite IH; lia.
Qed.

Lemma gcomplete_present rest : forall keys cells,
  length cells = length keys -> gcomplete rest keys cells = true ->
  forallb present (fst (fst (gwhile rest keys cells))) = true.
Proof.
  induction rest as [|r rest IH]; intros keys cells Hl H; cbn in *; [discriminate|].
  pose proof (gfor_length r keys cells Hl) as Hlen.
  destruct (gfor r keys cells) as [[cs m] e] eqn:G. cbn in Hlen. destruct m; cbn in *.
  - specialize (IH keys cs Hlen H). destruct (gwhile rest keys cs) as [[cs' e'] n']. exact IH.
  - exact (gfor_complete r keys cells cs e Hl G).
Qed.

End Generic.

(* ---------------------------------------------------------------------------------------- *)
(* 3. format_values as an instance *)

Definition kstep_v (r : bres) (k : key) (c : value_cell) : value_cell :=
  match b_get_message Pat (bundle_of r) (k_id Args k) with
  | Some msg =>
      match m_value Pat msg with
      | Some p => VPresent (fst (fmt (bundle_of r) p (k_args Args k)))
      | None => VMissing
      end
  | None => c
  end.

Lemma kstep_v_present r k c : is_present c = false -> is_present (kstep_v r k c) = has_value r k.
Proof.
  intros H. unfold kstep_v, Walk.has_value, Walk.value_pattern.
  destruct (b_get_message Pat (bundle_of r) (k_id Args k)) as [msg|]; [|exact H].
  destruct (m_value Pat msg); reflexivity.
Qed.

Local Notation gfor_v := (gfor value_cell is_present kstep_v has_value value_entry).
Local Notation gwhile_v := (gwhile value_cell is_present kstep_v has_value value_entry).
Local Notation cell_after_v := (cell_after value_cell is_present kstep_v VNone).

Lemma values_for_loop_ref r : has_locale r -> forall keys cells hm (errors : list err),
  values_for_loop Pat Args RErr BErr fmt (bundle_of r) keys cells hm errors =
    let '(cs, m, e) := gfor_v r keys cells in Done (cs, hm || m, errors ++ e).
Proof.
  intros Hr. induction keys as [|k keys IH]; intros [|c cells] hm errors; cbn;
    try (rewrite orb_false_r, app_nil_r; reflexivity).
  destruct (gfor_v r keys cells) as [[cs m] e] eqn:G.
  destruct (is_present c) eqn:P.
  - rewrite IH, G. cbn. reflexivity.
  - unfold kstep_v, Walk.has_value, Walk.value_pattern, Walk.value_entry.
    destruct (b_get_message Pat (bundle_of r) (k_id Args k)) as [msg|].
    + destruct (m_value Pat msg) as [p|].
      * destruct (fmt (bundle_of r) p (k_args Args k)) as [result fe]. cbn.
        rewrite push_resolver_wf by exact Hr. cbn. rewrite IH, G.
        cbn. rewrite <- app_assoc. reflexivity.
      * rewrite locale0_wf by exact Hr. cbn. rewrite IH, G.
        cbn. rewrite <- app_assoc, orb_true_r. reflexivity.
    + rewrite locale0_wf by exact Hr. cbn. rewrite IH, G.
      cbn. rewrite <- app_assoc, orb_true_r. reflexivity.
Qed.

Lemma values_while_ref rest : all_wf rest -> forall keys cells (errors : list err) n,
  values_while_loop Pat Args RErr BErr fmt rest keys cells errors n =
    let '(cs, e, m) := gwhile_v rest keys cells in Done (cs, errors ++ e, n + m).
Proof.
  induction 1 as [|r rest Hr Hrest IH]; intros keys cells errors n; cbn.
  - rewrite app_nil_r, Nat.add_0_r. reflexivity.
  - rewrite unwrap_bundle_eq. rewrite values_for_loop_ref by exact Hr.
    destruct (gfor_v r keys cells) as [[cs m] e]. cbn. destruct m; cbn.
    + rewrite IH. destruct (gwhile_v rest keys cs) as [[cs' e'] n']. cbn.
      rewrite <- !app_assoc. repeat f_equal. lia.
    + rewrite <- !app_assoc. repeat f_equal. lia.
Qed.

Definition finish_v (c : value_cell) : option bytes := match c with VPresent v => Some v | _ => None end.
Definition final_of_cell (c : value_cell) (k : key) : list err :=
  match c with
  | VPresent _ => []
  | VMissing => [EMissingValue (k_id Args k) None]
  | VNone => [EMissingMessage (k_id Args k) None]
  end.

Lemma values_collect_spec (f : key -> value_cell) keys : forall (errors : list err),
  values_collect Args RErr BErr keys (map f keys) errors =
    (map (fun k => finish_v (f k)) keys, errors ++ flat_map (fun k => final_of_cell (f k) k) keys).
Proof.
  induction keys as [|k keys IH]; intros errors; cbn.
  - rewrite app_nil_r. reflexivity.
  - destruct (f k); cbn; rewrite IH; cbn; rewrite <- ?app_assoc; reflexivity.
Qed.

Definition is_vmissing (c : value_cell) : bool := match c with VMissing => true | _ => false end.

Lemma fold_values k pre : forall c,
  fold_left (fun c r => kapply value_cell is_present kstep_v r k c) pre c =
    match c with
    | VPresent v => VPresent v
    | _ => match first_value pre k with
           | Some v => VPresent v
           | None => if is_vmissing c || existsb (fun r => has_message r k) pre then VMissing else VNone
           end
    end.
Proof.
  induction pre as [|r pre IH]; intros c.
  - destruct c; reflexivity.
  - cbn [fold_left]. rewrite IH. unfold kapply. destruct c as [v| |]; cbn [is_present]; try reflexivity.
    + unfold kstep_v. cbn [Walk.first_value existsb]. unfold Walk.value_pattern, Walk.has_message.
      destruct (b_get_message Pat (bundle_of r) (k_id Args k)) as [msg|]; [|reflexivity].
      destruct (m_value Pat msg); reflexivity.
    + unfold kstep_v. cbn [Walk.first_value existsb]. unfold Walk.value_pattern, Walk.has_message.
      destruct (b_get_message Pat (bundle_of r) (k_id Args k)) as [msg|]; [|reflexivity].
      destruct (m_value Pat msg); [reflexivity|]. cbn. destruct (first_value pre k); reflexivity.
Qed.

Lemma cell_after_v_eq pre k :
  cell_after_v pre k =
    match first_value pre k with
    | Some v => VPresent v
    | None => if existsb (fun r => has_message r k) pre then VMissing else VNone
    end.
Proof. unfold cell_after. rewrite fold_values. reflexivity. Qed.

Lemma first_value_answered pre k :
  answered has_value pre k = match first_value pre k with Some _ => true | None => false end.
Proof.
  induction pre as [|r pre IH]; cbn; [reflexivity|]. unfold Walk.has_value at 1.
  destruct (value_pattern r k); cbn; [reflexivity | exact IH].
Qed.

Lemma finish_cell_after_v pre k : finish_v (cell_after_v pre k) = first_value pre k.
Proof.
  rewrite cell_after_v_eq. destruct (first_value pre k); [reflexivity|].
  destruct (existsb _ pre); reflexivity.
Qed.

Lemma final_cell_after_v pre k : final_of_cell (cell_after_v pre k) k = value_final pre k.
Proof.
  rewrite cell_after_v_eq. unfold Walk.value_final.
  fold (answered has_value pre k). rewrite first_value_answered.
  destruct (first_value pre k); [reflexivity|]. destruct (existsb _ pre); reflexivity.
Qed.

Lemma first_value_app pre post k :
  answered has_value pre k = true -> first_value (pre ++ post) k = first_value pre k.
Proof.
  induction pre as [|r pre IH]; cbn; [discriminate|]. unfold Walk.has_value at 1.
  destruct (value_pattern r k); cbn; [reflexivity | exact IH].
Qed.

Lemma value_final_answered seq k : answered has_value seq k = true -> value_final seq k = [].
Proof. unfold Walk.value_final, Walk.answered. intros ->. reflexivity. Qed.

Lemma answered_app hit pre post k : answered hit pre k = true -> answered hit (pre ++ post) k = true.
Proof. unfold Walk.answered. rewrite existsb_app. intros ->. reflexivity. Qed.

Lemma stable_v seq keys k : In k keys ->
  first_value (firstn (visits has_value [] seq keys) seq) k = first_value seq k /\
  value_final (firstn (visits has_value [] seq keys) seq) k = value_final seq k.
Proof.
  intros Hin. destruct (visits_stop has_value seq [] keys) as [H|H].
  - rewrite H, firstn_all. split; reflexivity.
  - cbn [app] in H. rewrite forallb_forall in H. specialize (H k Hin).
    set (m := visits has_value [] seq keys) in *.
    rewrite <- (firstn_skipn m seq) at 2 4. split.
    + symmetry. apply first_value_app, H.
    + rewrite !value_final_answered; [reflexivity | apply answered_app, H | exact H].
Qed.

Theorem format_values_spec seq keys (errors : list err) : all_wf seq ->
  format_values_from_inner Pat Args RErr BErr fmt seq keys errors =
    Done (map (first_value seq) keys,
          errors ++ groups has_value value_entry [] (firstn (batch_visits has_value seq keys) seq) keys
                 ++ flat_map (value_final seq) keys,
          batch_visits has_value seq keys).
Proof.
  intros Hwf. unfold format_values_from_inner, Walk.batch_visits.
  destruct keys as [|k0 keys0]; [cbn; rewrite app_nil_r; reflexivity|].
  cbn [is_nil]. set (keys := k0 :: keys0).
  rewrite repeat_map.
  change (map (fun _ : key => VNone) keys) with (map (cell_after_v []) keys).
  rewrite values_while_ref by exact Hwf.
  rewrite (gwhile_spec value_cell is_present kstep_v has_value value_entry VNone kstep_v_present eq_refl).
  cbn [obind app Nat.add]. rewrite values_collect_spec.
  f_equal. f_equal. f_equal.
  - apply map_ext_in. intros k Hin. rewrite finish_cell_after_v. apply stable_v, Hin.
  - rewrite <- app_assoc. f_equal. f_equal. apply flat_map_ext_in'.
    intros k Hin. rewrite final_cell_after_v. apply stable_v, Hin.
Qed.

(* ---------------------------------------------------------------------------------------- *)
(* 4. format_messages as an instance *)

Definition present_m (c : option l10n_message) : bool := negb (is_none c).
Definition kstep_m (r : bres) (k : key) (c : option l10n_message) : option l10n_message :=
  fst (fmb (bundle_of r) k []).

Lemma fmb_is_none r k : is_none (fst (fmb (bundle_of r) k [])) = negb (has_message r k).
Proof.
  unfold format_message_from_bundle, Walk.has_message.
  destruct (b_get_message Pat (bundle_of r) (k_id Args k)) as [msg|]; [|reflexivity].
  destruct (m_value Pat msg) as [p|]; [destruct (fmt (bundle_of r) p (k_args Args k))|];
    destruct (format_attributes Pat Args RErr fmt (bundle_of r) (m_attrs Pat msg) (k_args Args k) _); reflexivity.
Qed.

Lemma kstep_m_present r k c : present_m c = false -> present_m (kstep_m r k c) = has_message r k.
Proof. intros _. unfold present_m, kstep_m. rewrite fmb_is_none. apply negb_involutive. Qed.

Local Notation gfor_m := (gfor (option l10n_message) present_m kstep_m has_message message_entry).
Local Notation gwhile_m := (gwhile (option l10n_message) present_m kstep_m has_message message_entry).
Local Notation gcomplete_m := (gcomplete (option l10n_message) present_m kstep_m has_message message_entry).
Local Notation cell_after_m := (cell_after (option l10n_message) present_m kstep_m None).

Lemma messages_for_loop_ref r : has_locale r -> forall keys cells hm (errors : list err),
  messages_for_loop Pat Args RErr BErr fmt (bundle_of r) keys cells hm errors =
    let '(cs, m, e) := gfor_m r keys cells in Done (cs, hm || m, errors ++ e).
Proof.
  intros Hr. induction keys as [|k keys IH]; intros [|c cells] hm errors; cbn;
    try (rewrite orb_false_r, app_nil_r; reflexivity).
  destruct (gfor_m r keys cells) as [[cs m] e] eqn:G.
  destruct c as [x|]; cbn.
  - rewrite IH, G. cbn. reflexivity.
  - unfold kstep_m, Walk.message_entry. pose proof (fmb_is_none r k) as HN.
    destruct (fmb (bundle_of r) k []) as [msg fe]. cbn [fst] in *. destruct msg as [x|]; cbn in HN.
    + apply (f_equal negb) in HN. rewrite negb_involutive in HN. cbn in HN. rewrite <- HN.
      rewrite push_resolver_wf by exact Hr. cbn. rewrite IH, G. cbn. rewrite <- app_assoc. reflexivity.
    + apply (f_equal negb) in HN. rewrite negb_involutive in HN. cbn in HN. rewrite <- HN.
      rewrite locale0_wf by exact Hr. cbn. rewrite IH, G. cbn. rewrite <- app_assoc, orb_true_r. reflexivity.
Qed.

Lemma messages_while_ref rest : all_wf rest -> forall keys cells (errors : list err) n,
  messages_while_loop Pat Args RErr BErr fmt rest keys cells errors n =
    let '(cs, e, m) := gwhile_m rest keys cells in
    Done (cs, gcomplete_m rest keys cells, errors ++ e, n + m).
Proof.
  induction 1 as [|r rest Hr Hrest IH]; intros keys cells errors n; cbn.
  - rewrite app_nil_r, Nat.add_0_r. reflexivity.
  - rewrite unwrap_bundle_eq. rewrite messages_for_loop_ref by exact Hr.
    destruct (gfor_m r keys cells) as [[cs m] e]. cbn. destruct m; cbn.
    + rewrite IH. destruct (gwhile_m rest keys cs) as [[cs' e'] n']. cbn.
      rewrite <- !app_assoc. repeat f_equal. lia.
    + rewrite <- !app_assoc. repeat f_equal. lia.
Qed.

Definition tail_of_cell (c : option l10n_message) (k : key) : list err :=
  if is_none c then [EMissingMessage (k_id Args k) None] else [].

Lemma messages_tail_spec (f : key -> option l10n_message) keys : forall (errors : list err),
  messages_tail Args RErr BErr keys (map f keys) errors =
    errors ++ flat_map (fun k => tail_of_cell (f k) k) keys.
Proof.
  induction keys as [|k keys IH]; intros errors; cbn.
  - rewrite app_nil_r. reflexivity.
  - unfold tail_of_cell at 1. destruct (is_none (f k)); rewrite IH; cbn; rewrite <- ?app_assoc; reflexivity.
Qed.

Lemma tail_all_present (f : key -> option l10n_message) keys :
  forallb present_m (map f keys) = true -> flat_map (fun k => tail_of_cell (f k) k) keys = [].
Proof.
  induction keys as [|k keys IH]; cbn; [reflexivity|]. intros H. apply andb_prop in H as [H1 H2].
  unfold tail_of_cell at 1. unfold present_m in H1. apply negb_true_iff in H1. rewrite H1. cbn. apply IH, H2.
Qed.

Lemma fold_messages k pre : forall c,
  fold_left (fun c r => kapply (option l10n_message) present_m kstep_m r k c) pre c =
    match c with Some m => Some m | None => first_message pre k end.
Proof.
  induction pre as [|r pre IH]; intros c.
  - destruct c; reflexivity.
  - cbn [fold_left]. rewrite IH. unfold kapply. destruct c as [m|]; cbn; reflexivity.
Qed.

Lemma cell_after_m_eq pre k : cell_after_m pre k = first_message pre k.
Proof. unfold cell_after. rewrite fold_messages. reflexivity. Qed.

Lemma first_message_answered pre k : answered has_message pre k = negb (is_none (first_message pre k)).
Proof.
  induction pre as [|r pre IH]; cbn; [reflexivity|].
  pose proof (fmb_is_none r k) as HN. destruct (fst (fmb (bundle_of r) k [])); cbn in *.
  - apply (f_equal negb) in HN. rewrite negb_involutive in HN. rewrite <- HN. reflexivity.
  - apply (f_equal negb) in HN. rewrite negb_involutive in HN. rewrite <- HN. exact IH.
Qed.

Lemma tail_cell_after_m pre k : tail_of_cell (cell_after_m pre k) k = message_final pre k.
Proof.
  rewrite cell_after_m_eq. unfold tail_of_cell, Walk.message_final.
  fold (answered has_message pre k). rewrite first_message_answered.
  destruct (first_message pre k); reflexivity.
Qed.

Lemma first_message_app pre post k :
  answered has_message pre k = true -> first_message (pre ++ post) k = first_message pre k.
Proof.
  induction pre as [|r pre IH]; cbn; [discriminate|].
  pose proof (fmb_is_none r k) as HN. destruct (fst (fmb (bundle_of r) k [])); cbn in *; [reflexivity|].
  apply (f_equal negb) in HN. rewrite negb_involutive in HN. rewrite <- HN. exact IH.
Qed.

Lemma message_final_answered seq k : answered has_message seq k = true -> message_final seq k = [].
Proof. unfold Walk.message_final, Walk.answered. intros ->. reflexivity. Qed.

Lemma stable_m seq keys k : In k keys ->
  first_message (firstn (visits has_message [] seq keys) seq) k = first_message seq k /\
  message_final (firstn (visits has_message [] seq keys) seq) k = message_final seq k.
Proof.
  intros Hin. destruct (visits_stop has_message seq [] keys) as [H|H].
  - rewrite H, firstn_all. split; reflexivity.
  - cbn [app] in H. rewrite forallb_forall in H. specialize (H k Hin).
    set (m := visits has_message [] seq keys) in *.
    rewrite <- (firstn_skipn m seq) at 2 4. split.
    + symmetry. apply first_message_app, H.
    + rewrite !message_final_answered; [reflexivity | apply answered_app, H | exact H].
Qed.

Theorem format_messages_spec seq keys (errors : list err) : all_wf seq ->
  format_messages_from_inner Pat Args RErr BErr fmt seq keys errors =
    Done (map (first_message seq) keys,
          errors ++ groups has_message message_entry [] (firstn (batch_visits has_message seq keys) seq) keys
                 ++ flat_map (message_final seq) keys,
          batch_visits has_message seq keys).
Proof.
  intros Hwf. unfold format_messages_from_inner, Walk.batch_visits.
  destruct keys as [|k0 keys0]; [cbn; rewrite app_nil_r; reflexivity|].
  cbn [is_nil]. set (keys := k0 :: keys0).
  rewrite repeat_map.
  change (map (fun _ : key => @None l10n_message) keys) with (map (cell_after_m []) keys).
  rewrite messages_while_ref by exact Hwf.
  pose proof (gcomplete_present (option l10n_message) present_m kstep_m has_message message_entry
                kstep_m_present seq keys (map (cell_after_m []) keys)) as HC.
  rewrite map_length in HC. specialize (HC eq_refl).
  rewrite (gwhile_spec (option l10n_message) present_m kstep_m has_message message_entry None
             kstep_m_present eq_refl) in *.
  cbn [obind app Nat.add fst] in *.
  set (m := visits has_message [] seq keys) in *.
  assert (HE : (if negb (gcomplete_m seq keys (map (cell_after_m []) keys))
                then messages_tail Args RErr BErr keys (map (cell_after_m (firstn m seq)) keys)
                       (errors ++ groups has_message message_entry [] (firstn m seq) keys)
                else errors ++ groups has_message message_entry [] (firstn m seq) keys) =
               (errors ++ groups has_message message_entry [] (firstn m seq) keys) ++
               flat_map (fun k => tail_of_cell (cell_after_m (firstn m seq) k) k) keys).
  { destruct (gcomplete_m seq keys (map (cell_after_m []) keys)); cbn [negb].
    - rewrite tail_all_present by (apply HC; reflexivity). rewrite app_nil_r. reflexivity.
    - apply messages_tail_spec. }
  rewrite HE. f_equal. f_equal. f_equal.
  - apply map_ext_in. intros k Hin. rewrite cell_after_m_eq. apply stable_m, Hin.
  - rewrite <- app_assoc. f_equal. f_equal. apply flat_map_ext_in'.
    intros k Hin. rewrite tail_cell_after_m. apply stable_m, Hin.
Qed.

(* ---------------------------------------------------------------------------------------- *)
(* 5. the single-key walk is the batch walk of the one-key list (no hypothesis: panics coincide) *)

Lemma single_batch1 k seq : forall fm (errors : list err) n,
  format_value_from_inner Pat Args RErr BErr fmt seq (k_id Args k) (k_args Args k) fm errors n =
    let* (cells, errors', n') :=
      values_while_loop Pat Args RErr BErr fmt seq [k] [if fm then VMissing else VNone] errors n in
    let '(res, errors'') := values_collect Args RErr BErr [k] cells errors' in
    Done (hd None res, errors'', n').
Proof.
  induction seq as [|r seq IH]; intros fm errors n.
  - cbn. destruct fm; reflexivity.
  - cbn [format_value_from_inner values_while_loop].
    destruct (unwrap_bundle Pat RErr BErr r errors) as [b errors1].
    cbn [values_for_loop].
    assert (is_present (if fm then VMissing else VNone) = false) as -> by (destruct fm; reflexivity).
    destruct (b_get_message Pat b (k_id Args k)) as [msg|].
    + destruct (m_value Pat msg) as [p|].
      * destruct (fmt b p (k_args Args k)) as [result fe].
        destruct (push_resolver Pat RErr BErr b (k_id Args k) fe errors1); cbn; reflexivity.
      * destruct (locale0 Pat b); cbn; try reflexivity. rewrite (IH true). reflexivity.
    + destruct (locale0 Pat b); cbn; try reflexivity. rewrite (IH fm). reflexivity.
Qed.

Theorem format_value_spec seq k (errors : list err) : all_wf seq ->
  format_value_from_inner Pat Args RErr BErr fmt seq (k_id Args k) (k_args Args k) false errors 0 =
    Done (first_value seq k,
          errors ++ groups has_value value_entry [] (firstn (visits has_value [] seq [k]) seq) [k]
                 ++ value_final seq k,
          visits has_value [] seq [k]).
Proof.
  intros Hwf. rewrite single_batch1.
  pose proof (format_values_spec seq [k] errors Hwf) as H.
  unfold format_values_from_inner, Walk.batch_visits in H. cbn [is_nil length repeat] in H.
  destruct (values_while_loop Pat Args RErr BErr fmt seq [k] [VNone] errors 0) as [[[cells e'] n']| |];
    cbn [obind] in H |- *; try discriminate.
  destruct (values_collect Args RErr BErr [k] cells e') as [res e'']. inversion H; subst.
  cbn [hd flat_map]. rewrite !app_nil_r. reflexivity.
Qed.

(* ---------------------------------------------------------------------------------------- *)
(* 6. reading the one-key walk off the decomposition  seq = pre ++ r :: post *)

Definition missing_entry (r : bres) (k : key) : err :=
  if has_message r k then EMissingValue (k_id Args k) (Some (loc_of r))
  else EMissingMessage (k_id Args k) (Some (loc_of r)).

Lemma value_entry_missing r k : value_pattern r k = None -> value_entry r k = [missing_entry r k].
Proof.
  unfold Walk.value_pattern, Walk.value_entry, missing_entry, Walk.has_message.
  destruct (b_get_message Pat (bundle_of r) (k_id Args k)) as [msg|]; [|reflexivity].
  intros ->. reflexivity.
Qed.

Lemma value_entry_value r k p : value_pattern r k = Some p ->
  value_entry r k = resolver_entry r (k_id Args k) (snd (fmt (bundle_of r) p (k_args Args k))).
Proof.
  unfold Walk.value_pattern, Walk.value_entry.
  destruct (b_get_message Pat (bundle_of r) (k_id Args k)) as [msg|]; [|discriminate].
  intros ->. reflexivity.
Qed.

Lemma has_value_pattern r k : has_value r k = match value_pattern r k with Some _ => true | None => false end.
Proof. reflexivity. Qed.

Lemma first_value_split pre r post k p :
  (forall r', In r' pre -> value_pattern r' k = None) -> value_pattern r k = Some p ->
  first_value (pre ++ r :: post) k = Some (fst (fmt (bundle_of r) p (k_args Args k))).
Proof.
  intros Hpre Hr. induction pre as [|r' pre IH]; cbn.
  - rewrite Hr. reflexivity.
  - rewrite (Hpre r' (or_introl eq_refl)). apply IH. intros x Hx. apply Hpre. right. exact Hx.
Qed.

Lemma first_value_none seq k :
  first_value seq k = None <-> (forall r, In r seq -> value_pattern r k = None).
Proof.
  induction seq as [|r seq IH]; cbn.
  - split; [intros _ r [] | reflexivity].
  - destruct (value_pattern r k) eqn:E.
    + split; [discriminate|]. intros H. specialize (H r (or_introl eq_refl)). congruence.
    + rewrite IH. split.
      * intros H x [<-|Hx]; [exact E | apply H, Hx].
      * intros H x Hx. apply H. right. exact Hx.
Qed.

Lemma single_split k pre : forall pre0 r post p,
  answered has_value pre0 k = false ->
  (forall r', In r' pre -> value_pattern r' k = None) -> value_pattern r k = Some p ->
  visits has_value pre0 (pre ++ r :: post) [k] = S (length pre) /\
  groups has_value value_entry pre0 (firstn (S (length pre)) (pre ++ r :: post)) [k] =
    flat_map (fun r' => carried r' ++ [missing_entry r' k]) pre ++ carried r ++
    resolver_entry r (k_id Args k) (snd (fmt (bundle_of r) p (k_args Args k))).
Proof.
  induction pre as [|r' pre IH]; intros pre0 r post p H0 Hpre Hr.
  - cbn. rewrite answered_snoc, H0, has_value_pattern, Hr. cbn. unfold Walk.group. cbn.
    rewrite H0, !app_nil_r. rewrite (value_entry_value r k p Hr). split; reflexivity.
  - assert (E : value_pattern r' k = None) by (apply Hpre; left; reflexivity).
    assert (H1 : answered has_value (pre0 ++ [r']) k = false).
    { rewrite answered_snoc, H0, has_value_pattern, E. reflexivity. }
    destruct (IH (pre0 ++ [r']) r post p H1) as [IHv IHg]; [intros x Hx; apply Hpre; right; exact Hx | exact Hr |].
    cbn [app Walk.visits forallb length]. rewrite H1. cbn [andb]. rewrite IHv. split; [reflexivity|].
    rewrite firstn_cons. cbn [Walk.groups]. cbn [length] in IHg. rewrite IHg. unfold Walk.group. cbn [flat_map].
    rewrite H0, app_nil_r, (value_entry_missing r' k E). rewrite <- !app_assoc. reflexivity.
Qed.

Lemma single_none k seq : forall pre0,
  answered has_value pre0 k = false ->
  (forall r, In r seq -> value_pattern r k = None) ->
  visits has_value pre0 seq [k] = length seq /\
  groups has_value value_entry pre0 (firstn (length seq) seq) [k] =
    flat_map (fun r' => carried r' ++ [missing_entry r' k]) seq.
Proof.
  induction seq as [|r' seq IH]; intros pre0 H0 Hall; [split; reflexivity|].
  assert (E : value_pattern r' k = None) by (apply Hall; left; reflexivity).
  assert (H1 : answered has_value (pre0 ++ [r']) k = false).
  { rewrite answered_snoc, H0, has_value_pattern, E. reflexivity. }
  destruct (IH (pre0 ++ [r']) H1) as [IHv IHg]; [intros x Hx; apply Hall; right; exact Hx|].
  cbn [Walk.visits forallb length]. rewrite H1. cbn [andb]. rewrite IHv. split; [reflexivity|].
  rewrite firstn_cons. cbn [Walk.groups]. rewrite IHg. unfold Walk.group. cbn [flat_map].
  rewrite H0, app_nil_r, (value_entry_missing r' k E). rewrite <- !app_assoc. reflexivity.
Qed.

Lemma value_final_none seq k : (forall r, In r seq -> value_pattern r k = None) ->
  value_final seq k =
    [if existsb (fun r => has_message r k) seq then EMissingValue (k_id Args k) None
     else EMissingMessage (k_id Args k) None].
Proof.
  intros H. unfold Walk.value_final.
  assert (existsb (fun r => has_value r k) seq = false) as ->.
  { induction seq as [|r seq IH]; cbn; [reflexivity|].
    rewrite has_value_pattern, (H r (or_introl eq_refl)). apply IH. intros x Hx. apply H. right. exact Hx. }
  destruct (existsb _ seq); reflexivity.
Qed.

Lemma value_final_some pre r post k p : value_pattern r k = Some p -> value_final (pre ++ r :: post) k = [].
Proof.
  intros H. apply value_final_answered. unfold Walk.answered. rewrite existsb_app. cbn.
  rewrite has_value_pattern, H. cbn. apply orb_true_r.
Qed.

(* ---------------------------------------------------------------------------------------- *)
(* 7. the number of visited bundles is the largest single-key depth (and at least 1) *)
Section Visits.
Variable hit : bres -> key -> bool.

Lemma visits_pos r rest pre keys : 1 <= visits hit pre (r :: rest) keys.
Proof. cbn. destruct (forallb _ keys); lia. Qed.

Lemma visits_mono rest : forall pre keys k, In k keys -> visits hit pre rest [k] <= visits hit pre rest keys.
Proof.
  induction rest as [|r rest IH]; intros pre keys k Hin; cbn; [lia|].
  destruct (forallb (answered hit (pre ++ [r])) keys) eqn:F.
  - rewrite forallb_forall in F. rewrite (F k Hin). cbn. lia.
  - destruct (answered hit (pre ++ [r]) k); cbn; [lia|]. specialize (IH (pre ++ [r]) keys k Hin). lia.
Qed.

Lemma forallb_false_ex {X} (f : X -> bool) l : forallb f l = false -> exists x, In x l /\ f x = false.
Proof.
  induction l as [|x l IH]; cbn; [discriminate|]. destruct (f x) eqn:E; cbn.
  - intros H. destruct (IH H) as [y [Hy Hf]]. exists y. split; [right; exact Hy | exact Hf].
  - intros _. exists x. split; [left; reflexivity | exact E].
Qed.

Lemma visits_witness rest : forall pre keys, rest <> [] -> keys <> [] ->
  exists k, In k keys /\ visits hit pre rest [k] = visits hit pre rest keys.
Proof.
  induction rest as [|r rest IH]; intros pre keys Hr Hk; [congruence|]. cbn [Walk.visits].
  destruct (forallb (answered hit (pre ++ [r])) keys) eqn:F.
  - destruct keys as [|k keys]; [congruence|]. exists k. split; [left; reflexivity|].
    cbn in F. apply andb_prop in F as [F1 _]. cbn. rewrite F1. reflexivity.
  - destruct (forallb_false_ex _ _ F) as [k0 [Hk0 Ha0]].
    destruct rest as [|r2 rest2].
    + exists k0. split; [exact Hk0|]. cbn. rewrite Ha0. reflexivity.
    + destruct (IH (pre ++ [r]) keys) as [k1 [Hk1 Hv1]]; [congruence | exact Hk |].
      destruct (answered hit (pre ++ [r]) k1) eqn:A1.
      * assert (V1 : visits hit (pre ++ [r]) (r2 :: rest2) [k1] = 1).
        { cbn. rewrite (answered_app hit (pre ++ [r]) [r2] k1 A1). reflexivity. }
        exists k0. split; [exact Hk0|]. cbn [forallb]. rewrite Ha0. cbn [andb].
        pose proof (visits_mono (r2 :: rest2) (pre ++ [r]) keys k0 Hk0).
        pose proof (visits_pos r2 rest2 (pre ++ [r]) [k0]). lia.
      * exists k1. split; [exact Hk1|]. cbn [forallb]. rewrite A1. cbn [andb]. rewrite Hv1. reflexivity.
Qed.

Lemma in_le_list_max x l : In x l -> x <= list_max l.
Proof.
  intros H. assert (Forall (fun k => k <= list_max l) l) as F by (apply list_max_le; lia).
  rewrite Forall_forall in F. apply F, H.
Qed.

Theorem visits_max seq keys :
  visits hit [] seq keys =
    match seq with
    | [] => 0
    | _ => Nat.max 1 (list_max (map (fun k => visits hit [] seq [k]) keys))
    end.
Proof.
  destruct seq as [|r seq]; [reflexivity|].
  destruct keys as [|k0 keys]; [reflexivity|].
  apply Nat.le_antisymm.
  - destruct (visits_witness (r :: seq) [] (k0 :: keys)) as [k [Hk Hv]]; try congruence.
    rewrite <- Hv. etransitivity; [|apply Nat.le_max_r].
    apply in_le_list_max. apply in_map_iff. exists k. split; [reflexivity | exact Hk].
  - apply Nat.max_lub; [apply visits_pos|]. apply list_max_le. apply Forall_forall.
    intros x Hx. apply in_map_iff in Hx as [k [<- Hk]]. apply visits_mono, Hk.
Qed.

(* for a non-empty key list the "at least 1" is automatic: the count is simply the largest single-key depth *)
Lemma list_max_zero {X} (l : list X) : list_max (map (fun _ => 0) l) = 0.
Proof. induction l; cbn; [reflexivity | exact IHl]. Qed.

Theorem visits_list_max seq keys : keys <> [] ->
  visits hit [] seq keys = list_max (map (fun k => visits hit [] seq [k]) keys).
Proof.
  intros Hk. rewrite visits_max. destruct seq as [|r seq]; [symmetry; apply list_max_zero|].
  destruct keys as [|k0 keys]; [congruence|]. cbn [map list_max fold_right].
  pose proof (visits_pos r seq [] [k0]). lia.
Qed.

Theorem batch_visits_list_max seq keys :
  Walk.batch_visits Pat Args BErr hit seq keys = list_max (map (fun k => visits hit [] seq [k]) keys).
Proof.
  unfold Walk.batch_visits. destruct keys as [|k0 keys]; [reflexivity|]. cbn [is_nil].
  apply visits_list_max. discriminate.
Qed.
End Visits.

(* ---------------------------------------------------------------------------------------- *)
(* 8. what format_message_from_bundle returns: optional value, attributes in source order,
      resolver errors of the value then of the attributes in source order *)

Definition attr_texts (b : bundle Pat) (attrs : list (bytes * Pat)) (args : option Args) : list (bytes * bytes) :=
  map (fun np => (fst np, fst (fmt b (snd np) args))) attrs.
Definition attr_errors (b : bundle Pat) (attrs : list (bytes * Pat)) (args : option Args) : list RErr :=
  flat_map (fun np => snd (fmt b (snd np) args)) attrs.

Lemma format_attributes_eq b attrs args : forall fe,
  format_attributes Pat Args RErr fmt b attrs args fe = (attr_texts b attrs args, fe ++ attr_errors b attrs args).
Proof.
  induction attrs as [|[name p] attrs IH]; intros fe; cbn.
  - rewrite app_nil_r. reflexivity.
  - destruct (fmt b p args) as [v e] eqn:F. rewrite IH. cbn. rewrite <- app_assoc. reflexivity.
Qed.

Lemma fmb_found b k msg : b_get_message Pat b (k_id Args k) = Some msg ->
  fmb b k [] =
    (Some (mkL10n (option_map (fun p => fst (fmt b p (k_args Args k))) (m_value Pat msg))
                  (attr_texts b (m_attrs Pat msg) (k_args Args k))),
     match m_value Pat msg with Some p => snd (fmt b p (k_args Args k)) | None => [] end
       ++ attr_errors b (m_attrs Pat msg) (k_args Args k)).
Proof.
  intros H. unfold format_message_from_bundle. rewrite H.
  destruct (m_value Pat msg) as [p|]; cbn [option_map]; [destruct (fmt b p (k_args Args k)) as [v e]|];
    rewrite format_attributes_eq; reflexivity.
Qed.

Lemma fmb_absent b k : b_get_message Pat b (k_id Args k) = None -> fmb b k [] = (None, []).
Proof. intros H. unfold format_message_from_bundle. rewrite H. reflexivity. Qed.

Lemma first_message_split pre r post k msg :
  (forall r', In r' pre -> b_get_message Pat (bundle_of r') (k_id Args k) = None) ->
  b_get_message Pat (bundle_of r) (k_id Args k) = Some msg ->
  first_message (pre ++ r :: post) k =
    Some (mkL10n (option_map (fun p => fst (fmt (bundle_of r) p (k_args Args k))) (m_value Pat msg))
                 (attr_texts (bundle_of r) (m_attrs Pat msg) (k_args Args k))).
Proof.
  intros Hpre Hr. induction pre as [|r' pre IH]; cbn.
  - rewrite (fmb_found _ _ _ Hr). reflexivity.
  - rewrite (fmb_absent _ _ (Hpre r' (or_introl eq_refl))). cbn. apply IH.
    intros x Hx. apply Hpre. right. exact Hx.
Qed.

Lemma first_message_none seq k :
  first_message seq k = None <-> (forall r, In r seq -> b_get_message Pat (bundle_of r) (k_id Args k) = None).
Proof.
  induction seq as [|r seq IH]; cbn.
  - split; [intros _ r [] | reflexivity].
  - destruct (b_get_message Pat (bundle_of r) (k_id Args k)) as [msg|] eqn:E.
    + rewrite (fmb_found _ _ _ E). cbn. split; [discriminate|].
      intros H. specialize (H r (or_introl eq_refl)). congruence.
    + rewrite (fmb_absent _ _ E). cbn. rewrite IH. split.
      * intros H x [<-|Hx]; [exact E | apply H, Hx].
      * intros H x Hx. apply H. right. exact Hx.
Qed.

Lemma message_entry_found r k msg : b_get_message Pat (bundle_of r) (k_id Args k) = Some msg ->
  message_entry r k =
    resolver_entry r (k_id Args k)
      (match m_value Pat msg with Some p => snd (fmt (bundle_of r) p (k_args Args k)) | None => [] end
         ++ attr_errors (bundle_of r) (m_attrs Pat msg) (k_args Args k)).
Proof. intros H. unfold Walk.message_entry. rewrite (fmb_found _ _ _ H). reflexivity. Qed.

Lemma message_entry_absent r k : b_get_message Pat (bundle_of r) (k_id Args k) = None ->
  message_entry r k = [EMissingMessage (k_id Args k) (Some (loc_of r))].
Proof. intros H. unfold Walk.message_entry. rewrite (fmb_absent _ _ H). reflexivity. Qed.

End WalkProofs.

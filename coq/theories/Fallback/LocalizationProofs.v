(* Fallback/LocalizationProofs.v — invariants of the Localization model over all op lists (property C18). *)
From FluentV Require Import Base.Bytes Base.BytesFacts Base.Outcome Fallback.Localization.
From Coq Require Import Lia.

(* ---------------------------------------------------------------------------------------- *)
(* the resource-id set: no two elements with the same value *)

Definition nodup_vals (s : res_set) : Prop := NoDup (map r_value s).

Lemma rid_eqb_eq a b : rid_eqb a b = true <-> r_value a = r_value b.
Proof. unfold rid_eqb. apply bytes_eqb_eq. Qed.

Lemma set_contains_in s r : set_contains s r = true <-> In (r_value r) (map r_value s).
Proof.
  unfold set_contains. rewrite existsb_exists. split.
  - intros [x [Hx He]]. apply rid_eqb_eq in He. rewrite He. apply in_map, Hx.
  - intros H. apply in_map_iff in H as [x [He Hx]]. exists x. split; [exact Hx|]. apply rid_eqb_eq. congruence.
Qed.

Lemma set_contains_false s r : set_contains s r = false <-> ~ In (r_value r) (map r_value s).
Proof.
  rewrite <- set_contains_in. destruct (set_contains s r); split; congruence.
Qed.

Lemma NoDup_snoc {X} (l : list X) a : NoDup l -> ~ In a l -> NoDup (l ++ [a]).
Proof.
  induction l as [|x l IH]; cbn; intros H Hn.
  - constructor; [intros [] | constructor].
  - inversion H as [|? ? Hx Hl]; subst. constructor.
    + intros Hin. apply in_app_or in Hin as [Hin|[<-|[]]]; [contradiction|]. apply Hn. left. reflexivity.
    + apply IH; [exact Hl|]. intros Hin. apply Hn. right. exact Hin.
Qed.

Lemma nodup_insert s r : nodup_vals s -> nodup_vals (set_insert s r).
Proof.
  unfold set_insert, nodup_vals. intros H. destruct (set_contains s r) eqn:E; [exact H|].
  rewrite map_app. cbn. apply set_contains_false in E. apply NoDup_snoc; assumption.
Qed.

Lemma nodup_extend rs : forall s, nodup_vals s -> nodup_vals (set_extend s rs).
Proof.
  unfold set_extend. induction rs as [|r rs IH]; intros s H; cbn; [exact H|]. apply IH, nodup_insert, H.
Qed.

Lemma nodup_filter f s : nodup_vals s -> nodup_vals (filter f s).
Proof.
  unfold nodup_vals. induction s as [|x s IH]; cbn; intros H; [constructor|].
  inversion H as [|? ? Hn Hd]; subst. destruct (f x); cbn; [|apply IH, Hd].
  constructor; [|apply IH, Hd]. intros Hin. apply Hn.
  apply in_map_iff in Hin as [y [He Hy]]. apply filter_In in Hy as [Hy _]. rewrite <- He. apply in_map, Hy.
Qed.

Lemma nodup_from_iter rs : nodup_vals (set_from_iter rs).
Proof. apply nodup_extend. constructor. Qed.

(* building a set from the elements of a set gives that set back *)
Lemma set_extend_nodup s : forall acc, nodup_vals (acc ++ s) -> set_extend acc s = acc ++ s.
Proof.
  unfold set_extend. induction s as [|x s IH]; intros acc H; cbn; [rewrite app_nil_r; reflexivity|].
  assert (E : set_contains acc x = false).
  { apply set_contains_false. unfold nodup_vals in H. rewrite map_app in H. cbn in H.
    apply NoDup_remove_2 in H. intros Hin. apply H. apply in_or_app. left. exact Hin. }
  unfold set_insert at 2. rewrite E. rewrite IH; rewrite <- app_assoc; [reflexivity | exact H].
Qed.

Lemma set_from_iter_id s : nodup_vals s -> set_from_iter s = s.
Proof. intros H. unfold set_from_iter. apply (set_extend_nodup s []). exact H. Qed.

(* first type wins *)
Lemma set_insert_present s r : set_contains s r = true -> set_insert s r = s.
Proof. unfold set_insert. intros ->. reflexivity. Qed.

Lemma set_remove_gone s r : set_contains (set_remove s r) r = false.
Proof.
  unfold set_contains, set_remove. apply Bool.not_true_is_false. intros H.
  apply existsb_exists in H as [x [Hx He]]. apply filter_In in Hx as [_ Hf]. rewrite He in Hf. discriminate.
Qed.

(* ---------------------------------------------------------------------------------------- *)
Section LocalizationProofs.
Variable B : Type.
Variable gen : bool -> list locale -> res_set -> B.

Local Notation bundles := (bundles B).
Local Notation world := (world B).
Local Notation localization := (localization B).
Local Notation get_bundles := (get_bundles B gen).
Local Notation step := (step B gen).
Local Notation run := (run B gen).
Local Notation fresh := (fresh B).

(* the set b was built by the generator consultation recorded at index bs_id b *)
Definition logged (calls : list gen_call) (b : bundles) : Prop :=
  exists ls ids, nth_error calls (bs_id B b) = Some (negb (bs_sync B b), ls, ids) /\
                 bs_inner B b = gen (negb (bs_sync B b)) ls ids.

(* d = "a provider change has not been announced yet" *)
Definition coherent (d : bool) (w : world) : Prop :=
  nodup_vals (l_res_ids B (w_loc B w)) /\
  match l_bundles B (w_loc B w) with
  | None => True
  | Some b =>
      bs_sync B b = l_sync B (w_loc B w) /\
      exists ls,
        nth_error (w_calls B w) (bs_id B b) = Some (negb (l_sync B (w_loc B w)), ls, l_res_ids B (w_loc B w)) /\
        bs_inner B b = gen (negb (l_sync B (w_loc B w))) ls (l_res_ids B (w_loc B w)) /\
        (d = false -> ls = w_locales B w)
  end.

Definition d_next (d : bool) (o : op) : bool :=
  match o with SetLocales _ => true | OnChange => false | _ => d end.

Lemma coherent_logged d w b : coherent d w -> l_bundles B (w_loc B w) = Some b -> logged (w_calls B w) b.
Proof.
  intros [_ H] E. rewrite E in H. destruct H as [Hs [ls [Hn [Hi _]]]].
  exists ls, (l_res_ids B (w_loc B w)). rewrite Hs. split; assumption.
Qed.

Lemma logged_mono calls extra b : logged calls b -> logged (calls ++ extra) b.
Proof.
  intros [ls [ids [Hn Hi]]]. exists ls, ids. split; [|exact Hi].
  rewrite nth_error_app1; [exact Hn|]. apply nth_error_Some. congruence.
Qed.

Lemma logged_unique calls b b' : logged calls b -> logged calls b' -> bs_id B b = bs_id B b' -> b = b'.
Proof.
  intros [ls [ids [Hn Hi]]] [ls' [ids' [Hn' Hi']]] E. rewrite E in Hn. rewrite Hn in Hn'.
  inversion Hn' as [[Hs Hl Hd]]. apply (f_equal negb) in Hs. rewrite !negb_involutive in Hs.
  destruct b as [i s x], b' as [i' s' x']. cbn in *. subst. reflexivity.
Qed.

(* ---- get_bundles ---- *)
Lemma get_bundles_some w b : l_bundles B (w_loc B w) = Some b -> get_bundles w = (b, w).
Proof. unfold Localization.get_bundles. intros ->. reflexivity. Qed.

Lemma get_bundles_none w : l_bundles B (w_loc B w) = None ->
  let l := w_loc B w in
  let b := mkBundles B (length (w_calls B w)) (l_sync B l) (gen (negb (l_sync B l)) (w_locales B w) (l_res_ids B l)) in
  get_bundles w =
    (b, mkWorld B (mkLoc B (Some b) (l_sync B l) (l_res_ids B l)) (w_locales B w)
          (w_calls B w ++ [(negb (l_sync B l), w_locales B w, l_res_ids B l)]) (w_prefetches B w)).
Proof. unfold Localization.get_bundles. intros ->. reflexivity. Qed.

Lemma get_bundles_cell w b w' : get_bundles w = (b, w') -> l_bundles B (w_loc B w') = Some b.
Proof.
  destruct (l_bundles B (w_loc B w)) as [b0|] eqn:E.
  - rewrite (get_bundles_some w b0 E). intros H. inversion H; subst. exact E.
  - rewrite (get_bundles_none w E). intros H. inversion H; subst. reflexivity.
Qed.

Lemma get_bundles_coherent d w b w' : coherent d w -> get_bundles w = (b, w') -> coherent d w'.
Proof.
  intros [Hn Hc] H. destruct (l_bundles B (w_loc B w)) as [b0|] eqn:E.
  - rewrite (get_bundles_some w b0 E) in H. inversion H; subst. split; [exact Hn|]. rewrite E. exact Hc.
  - rewrite (get_bundles_none w E) in H. inversion H; subst. clear H. split; [exact Hn|]. cbn.
    split; [reflexivity|]. exists (w_locales B w). split; [|split; [reflexivity | reflexivity]].
    rewrite nth_error_app2 by lia. rewrite Nat.sub_diag. reflexivity.
Qed.

Lemma get_bundles_calls w b w' : get_bundles w = (b, w') ->
  w_locales B w' = w_locales B w /\
  w_calls B w' = w_calls B w ++
    match l_bundles B (w_loc B w) with
    | Some _ => []
    | None => [(negb (l_sync B (w_loc B w)), w_locales B w, l_res_ids B (w_loc B w))]
    end.
Proof.
  destruct (l_bundles B (w_loc B w)) as [b0|] eqn:E.
  - rewrite (get_bundles_some w b0 E). intros H. inversion H; subst. rewrite app_nil_r. split; reflexivity.
  - rewrite (get_bundles_none w E). intros H. inversion H; subst. split; reflexivity.
Qed.

(* ---- one step ---- *)
Lemma step_coherent d w o w' r : coherent d w -> step w o = Done (w', r) -> coherent (d_next d o) w'.
Proof.
  intros Hc H. pose proof Hc as [Hn Hb]. destruct o; cbn in H.
  - inversion H; subst. split; cbn; [apply nodup_insert, Hn | exact Logic.I].
  - inversion H; subst. split; cbn; [apply nodup_extend, Hn | exact Logic.I].
  - inversion H; subst. split; cbn; [apply nodup_filter, Hn | exact Logic.I].
  - inversion H; subst. split; cbn; [apply nodup_filter, Hn | exact Logic.I].
  - inversion H; subst. unfold set_async. destruct (l_sync B (w_loc B w)) eqn:S.
    + split; cbn; [exact Hn | exact Logic.I].
    + destruct w as [l ls c p]. cbn in *. destruct l. exact Hc.
  - inversion H; subst. split; cbn; [exact Hn | exact Logic.I].
  - inversion H; subst. split; cbn; [exact Hn|]. destruct (l_bundles B (w_loc B w)); [|exact Logic.I].
    destruct Hb as [Hs [ls0 [Hnth [Hi _]]]]. split; [exact Hs|]. exists ls0. repeat split; try assumption. discriminate.
  - unfold prefetch_sync in H. destruct (Localization.get_bundles B gen w) as [b w1] eqn:G.
    destruct (bs_sync B b); cbn in H; [|discriminate]. inversion H; subst.
    pose proof (get_bundles_coherent d w b w1 Hc G) as [Hn1 Hb1]. split; [exact Hn1 | exact Hb1].
  - unfold prefetch_async in H. destruct (Localization.get_bundles B gen w) as [b w1] eqn:G.
    destruct (bs_sync B b); cbn in H; [discriminate|]. inversion H; subst.
    pose proof (get_bundles_coherent d w b w1 Hc G) as [Hn1 Hb1]. split; [exact Hn1 | exact Hb1].
  - destruct (Localization.get_bundles B gen w) as [b w1] eqn:G. inversion H; subst.
    exact (get_bundles_coherent d w b w' Hc G).
Qed.

(* the generator log only grows *)
Lemma step_calls w o w' r : step w o = Done (w', r) -> exists extra, w_calls B w' = w_calls B w ++ extra.
Proof.
  intros H. destruct o; cbn in H;
    try (inversion H; subst; exists []; cbn; rewrite app_nil_r; reflexivity).
  - unfold prefetch_sync in H. destruct (Localization.get_bundles B gen w) as [b w1] eqn:G.
    destruct (bs_sync B b); cbn in H; [|discriminate]. inversion H; subst. cbn.
    destruct (get_bundles_calls w b w1 G) as [_ Hc]. eexists. exact Hc.
  - unfold prefetch_async in H. destruct (Localization.get_bundles B gen w) as [b w1] eqn:G.
    destruct (bs_sync B b); cbn in H; [discriminate|]. inversion H; subst. cbn.
    destruct (get_bundles_calls w b w1 G) as [_ Hc]. eexists. exact Hc.
  - destruct (Localization.get_bundles B gen w) as [b w1] eqn:G. inversion H; subst.
    destruct (get_bundles_calls w b w' G) as [_ Hc]. eexists. exact Hc.
Qed.

Lemma step_result_logged d w o w' r : coherent d w -> step w o = Done (w', r) ->
  match r with RBundles _ b => logged (w_calls B w') b | _ => True end.
Proof.
  intros Hc H. destruct o; cbn in H.
  all: try (inversion H; subst; exact Logic.I).
  all: try (unfold remove_resource_id, remove_resource_ids in H; inversion H; subst; exact Logic.I).
  - destruct (prefetch_sync B gen w); cbn in H; try discriminate. inversion H; subst. exact Logic.I.
  - destruct (prefetch_async B gen w); cbn in H; try discriminate. inversion H; subst. exact Logic.I.
  - destruct (Localization.get_bundles B gen w) as [b w1] eqn:G. inversion H; subst.
    eapply coherent_logged; [exact (get_bundles_coherent d w b w' Hc G) | exact (get_bundles_cell w b w' G)].
Qed.

(* ---- runs ---- *)
Lemma run_cons w o ops w' rs : run w (o :: ops) = Done (w', rs) ->
  exists w1 r rs', step w o = Done (w1, r) /\ run w1 ops = Done (w', rs') /\ rs = r :: rs'.
Proof.
  cbn [Localization.run]. destruct (step w o) as [[w1 r]| |] eqn:S; cbn [obind]; try discriminate.
  destruct (run w1 ops) as [[w2 rs']| |] eqn:R; cbn [obind]; try discriminate.
  intros H. inversion H; subst. exists w1, r, rs'. split; [reflexivity|]. split; [exact R | reflexivity].
Qed.

Lemma run_coherent ops : forall d w w' rs,
  coherent d w -> run w ops = Done (w', rs) -> coherent (fold_left d_next ops d) w'.
Proof.
  induction ops as [|o ops IH]; intros d w w' rs Hc H.
  - cbn in H. inversion H; subst. exact Hc.
  - apply run_cons in H as [w1 [r [rs' [Hs [Hr _]]]]]. cbn [fold_left].
    eapply IH; [eapply step_coherent; eassumption | exact Hr].
Qed.

Lemma run_calls ops : forall w w' rs, run w ops = Done (w', rs) -> exists extra, w_calls B w' = w_calls B w ++ extra.
Proof.
  induction ops as [|o ops IH]; intros w w' rs H.
  - cbn in H. inversion H; subst. exists []. rewrite app_nil_r. reflexivity.
  - apply run_cons in H as [w1 [r [rs' [Hs [Hr _]]]]].
    destruct (step_calls _ _ _ _ Hs) as [e1 H1]. destruct (IH _ _ _ Hr) as [e2 H2].
    exists (e1 ++ e2). rewrite H2, H1, app_assoc. reflexivity.
Qed.

Lemma run_results_logged ops : forall d w w' rs, coherent d w -> run w ops = Done (w', rs) ->
  Forall (fun r => match r with RBundles _ b => logged (w_calls B w') b | _ => True end) rs.
Proof.
  induction ops as [|o ops IH]; intros d w w' rs Hc H.
  - cbn in H. inversion H; subst. constructor.
  - apply run_cons in H as [w1 [r [rs' [Hs [Hr ->]]]]]. constructor.
    + pose proof (step_result_logged d w o w1 r Hc Hs) as Hl. destruct r; try exact Logic.I.
      destruct (run_calls _ _ _ _ Hr) as [extra ->]. apply logged_mono, Hl.
    + eapply IH; [eapply step_coherent; eassumption | exact Hr].
Qed.

Lemma notified_fold ops : forall d d', notified d ops = Some d' -> d' = fold_left d_next ops d.
Proof.
  induction ops as [|o ops IH]; intros d d' H; cbn in H.
  - inversion H. reflexivity.
  - destruct o; cbn [fold_left d_next]; try (apply IH, H); destruct d; try discriminate; apply IH, H.
Qed.

Lemma fresh_coherent ids sync locs : coherent false (fresh ids sync locs).
Proof. split; cbn; [apply nodup_from_iter | exact Logic.I]. Qed.

(* ---- C18_fresh ---- *)
Theorem fresh_equiv ops ids sync locs w rs :
  notified false ops = Some false ->
  run (fresh ids sync locs) ops = Done (w, rs) ->
  let l := w_loc B w in
  let b := fst (get_bundles w) in
  let b' := fst (get_bundles (fresh (l_res_ids B l) (l_sync B l) (w_locales B w))) in
  bs_sync B b = bs_sync B b' /\ bs_inner B b = bs_inner B b' /\
  bs_sync B b = l_sync B l /\ bs_inner B b = gen (negb (l_sync B l)) (w_locales B w) (l_res_ids B l).
Proof.
  intros Hn Hr. apply notified_fold in Hn.
  pose proof (run_coherent ops false _ _ _ (fresh_coherent ids sync locs) Hr) as Hc. rewrite <- Hn in Hc.
  destruct Hc as [Hnd Hb]. cbn zeta.
  assert (F : get_bundles (fresh (l_res_ids B (w_loc B w)) (l_sync B (w_loc B w)) (w_locales B w)) =
              (mkBundles B 0 (l_sync B (w_loc B w))
                 (gen (negb (l_sync B (w_loc B w))) (w_locales B w) (l_res_ids B (w_loc B w))),
               snd (get_bundles (fresh (l_res_ids B (w_loc B w)) (l_sync B (w_loc B w)) (w_locales B w))))).
  { unfold Localization.fresh, with_env. rewrite (set_from_iter_id _ Hnd). reflexivity. }
  rewrite F. cbn [fst bs_sync bs_inner].
  destruct (l_bundles B (w_loc B w)) as [b0|] eqn:E.
  - rewrite (get_bundles_some w b0 E). cbn [fst]. destruct Hb as [Hs [ls [_ [Hi Hl]]]].
    rewrite (Hl eq_refl) in Hi. repeat split; assumption.
  - rewrite (get_bundles_none w E). cbn. repeat split; reflexivity.
Qed.

(* ---- C18_reuse ---- *)
Definition quiet (o : op) : bool :=
  match o with GetBundles | PrefetchSync | PrefetchAsync | SetLocales _ => true | _ => false end.

Lemma step_quiet w o w' r b : quiet o = true -> l_bundles B (w_loc B w) = Some b -> step w o = Done (w', r) ->
  l_bundles B (w_loc B w') = Some b /\ w_calls B w' = w_calls B w /\
  match r with RBundles _ b' => b' = b | _ => True end.
Proof.
  intros Hq E H. destruct o; try discriminate; cbn in H.
  - inversion H; subst. cbn. repeat split; try exact E.
  - unfold prefetch_sync in H. rewrite (get_bundles_some w b E) in H.
    destruct (bs_sync B b); cbn in H; [|discriminate]. inversion H; subst. cbn. repeat split; try exact E.
  - unfold prefetch_async in H. rewrite (get_bundles_some w b E) in H.
    destruct (bs_sync B b); cbn in H; [discriminate|]. inversion H; subst. cbn. repeat split; try exact E.
  - rewrite (get_bundles_some w b E) in H. inversion H; subst. repeat split. exact E.
Qed.

Lemma run_quiet ops : forall w w' rs b, forallb quiet ops = true -> l_bundles B (w_loc B w) = Some b ->
  run w ops = Done (w', rs) ->
  l_bundles B (w_loc B w') = Some b /\ w_calls B w' = w_calls B w /\
  Forall (fun r => match r with RBundles _ b' => b' = b | _ => True end) rs.
Proof.
  induction ops as [|o ops IH]; intros w w' rs b Hq E H.
  - cbn in H. inversion H; subst. repeat split; try exact E; constructor.
  - cbn in Hq. apply andb_prop in Hq as [Hq1 Hq2]. apply run_cons in H as [w1 [r [rs' [Hs [Hr ->]]]]].
    destruct (step_quiet w o w1 r b Hq1 E Hs) as [E1 [C1 R1]].
    destruct (IH w1 w' rs' b Hq2 E1 Hr) as [E2 [C2 R2]].
    repeat split; [exact E2 | congruence | constructor; assumption].
Qed.

(* ---- C18_every_mutator_invalidates ---- *)
Lemma mutators_invalidate (l : localization) r rs :
  l_bundles B (add_resource_id B l r) = None /\
  l_bundles B (add_resource_ids B l rs) = None /\
  l_bundles B (fst (remove_resource_id B l r)) = None /\
  l_bundles B (fst (remove_resource_ids B l rs)) = None /\
  l_bundles B (on_change B l) = None /\
  (l_sync B l = true -> l_bundles B (set_async B l) = None /\ l_sync B (set_async B l) = false) /\
  (l_sync B l = false -> set_async B l = l).
Proof.
  repeat split; try reflexivity.
  - unfold set_async. rewrite H. reflexivity.
  - unfold set_async. rewrite H. reflexivity.
  - intros H. unfold set_async. rewrite H. reflexivity.
Qed.

End LocalizationProofs.

(* Fallback/Walk.v — model of the locale-fallback walk of fluent-fallback/src/bundles.rs
   (property C16).  Definitions only; proofs are in Fallback/WalkProofs.v.

   What is modelled.  `Bundles<G>` wraps a cache over the generator's iterator (sync mode) or
   stream (async mode).  Every request walks the cached sequence from its beginning and pulls
   further items from the generator on demand (cache.rs — property C17; here only "items are
   pulled in order, lazily, each once" is used).  The three macros

       format_value_from_inner!   format_values_from_inner!   format_messages_from_inner!

   are each instantiated twice, with `$step` = `bundle_iter.next()` and `bundle_stream.next().await`.
   `$step` is modelled by the list of items it yields until `None` (`step : list bundle_result`):
   `while let Some(bundle) = $step` is structural recursion over that list, `break`/`return`
   leave the rest of the list unpulled.  Every function also returns how many items it pulled.

   A bundle is what the macros observe of a `FluentBundle`: `locales` (the code reads
   `locales[0]`, which PANICS on a bundle built with an empty locale list), `get_message`
   (id -> has a value? / attributes), and `format_pattern`, which is external here: a Section
   variable returning the text and the resolver errors it appended (C06/C07 are about it).

   Mutation of `$errors` (a `&mut Vec<LocalizationError>`) is state passing: `errors ++ [e]` is
   `push`, `errors ++ l` is `extend`.                                                          *)
From FluentV Require Export Base.Bytes Base.Outcome.

Section Walk.
Variables Pat Args RErr BErr : Type.   (* ast::Pattern, FluentArgs, resolver FluentError, carried FluentError *)

Definition locale := bytes.

(* fluent_bundle::FluentMessage as seen through value() / attributes() *)
Record message := mkMessage { m_value : option Pat; m_attrs : list (bytes * Pat) }.

(* fluent_bundle::FluentBundle as seen by bundles.rs *)
Record bundle := mkBundle { b_locales : list locale; b_get_message : bytes -> option message }.

(* generator.rs FluentBundleResult = Result<FluentBundle, (FluentBundle, Vec<FluentError>)> *)
Inductive bundle_result := BOk (b : bundle) | BBroken (b : bundle) (err : list BErr).

(* FluentBundle::format_pattern(pattern, args, &mut errors) -> text, appended errors *)
Variable format_pattern : bundle -> Pat -> option Args -> bytes * list RErr.

(* errors.rs LocalizationError *)
Inductive lerr :=
| EBundle (error : BErr)
| EResolver (id : bytes) (loc : locale) (errors : list RErr)
| EMissingMessage (id : bytes) (loc : option locale)
| EMissingValue (id : bytes) (loc : option locale)
| ESyncRequestInAsyncMode.

(* types.rs L10nKey, L10nAttribute, L10nMessage *)
Record key := mkKey { k_id : bytes; k_args : option Args }.
Record l10n_message := mkL10n { l_value : option bytes; l_attributes : list (bytes * bytes) }.

Definition is_nil {X} (l : list X) : bool := match l with [] => true | _ => false end.

(* bundle.locales[0].clone()            (format_messages uses .get(0).cloned().unwrap()) *)
Definition locale0 (b : bundle) : outcome locale :=
  match b_locales b with
  | l :: _ => Done l
  | [] => Panic "index out of bounds: bundle.locales[0]"
  end.

(* bundle.as_ref().unwrap_or_else(|(bundle, err)| { $errors.extend(err.iter().cloned().map(Into::into)); bundle }) *)
Definition unwrap_bundle (r : bundle_result) (errors : list lerr) : bundle * list lerr :=
  match r with
  | BOk b => (b, errors)
  | BBroken b err => (b, errors ++ map EBundle err)
  end.

(* `if !format_errors.is_empty() { $errors.push(Resolver { id, locale: bundle.locales[0], errors }) }` *)
Definition push_resolver (b : bundle) (id : bytes) (format_errors : list RErr) (errors : list lerr)
  : outcome (list lerr) :=
  if is_nil format_errors then Done errors
  else let* l := locale0 b in Done (errors ++ [EResolver id l format_errors]).

(* ---------------------------------------------------------------------------------------- *)
(* bundles.rs format_value_from_inner!      state: found_message, errors, n = items pulled   *)
Fixpoint format_value_from_inner (step : list bundle_result) (id : bytes) (args : option Args)
    (found_message : bool) (errors : list lerr) (n : nat) : outcome (option bytes * list lerr * nat) :=
  match step with
  | r :: step' =>
      let '(b, errors) := unwrap_bundle r errors in
      match b_get_message b id with
      | Some msg =>
          (* found_message = true *)
          match m_value msg with
          | Some value =>
              let '(result, format_errors) := format_pattern b value args in
              let* errors := push_resolver b id format_errors errors in
              Done (Some result, errors, S n)                                   (* return Some(result) *)
          | None =>
              let* l := locale0 b in
              format_value_from_inner step' id args true (errors ++ [EMissingValue id (Some l)]) (S n)
          end
      | None =>
          let* l := locale0 b in
          format_value_from_inner step' id args found_message (errors ++ [EMissingMessage id (Some l)]) (S n)
      end
  | [] =>
      if found_message then Done (None, errors ++ [EMissingValue id None], n)
      else Done (None, errors ++ [EMissingMessage id None], n)
  end.

(* ---------------------------------------------------------------------------------------- *)
(* bundles.rs enum Value *)
Inductive value_cell := VPresent (v : bytes) | VMissing | VNone.

Definition is_present (c : value_cell) : bool := match c with VPresent _ => true | _ => false end.

(* the `for (key, cell) in keys.iter().zip(&mut cells).filter(|(_, cell)| !matches!(cell, Present(_)))`
   loop of format_values_from_inner!, for one bundle; state: has_missing, errors *)
Fixpoint values_for_loop (b : bundle) (keys : list key) (cells : list value_cell)
    (has_missing : bool) (errors : list lerr) : outcome (list value_cell * bool * list lerr) :=
  match keys, cells with
  | k :: keys', cell :: cells' =>
      if is_present cell then
        let* (cells', has_missing, errors) := values_for_loop b keys' cells' has_missing errors in
        Done (cell :: cells', has_missing, errors)
      else
        match b_get_message b (k_id k) with
        | Some msg =>
            match m_value msg with
            | Some value =>
                let '(result, format_errors) := format_pattern b value (k_args k) in
                let* errors := push_resolver b (k_id k) format_errors errors in
                let* (cells', has_missing, errors) := values_for_loop b keys' cells' has_missing errors in
                Done (VPresent result :: cells', has_missing, errors)
            | None =>
                let* l := locale0 b in
                let* (cells', has_missing, errors) :=
                  values_for_loop b keys' cells' true (errors ++ [EMissingValue (k_id k) (Some l)]) in
                Done (VMissing :: cells', has_missing, errors)
            end
        | None =>
            let* l := locale0 b in
            let* (cells', has_missing, errors) :=
              values_for_loop b keys' cells' true (errors ++ [EMissingMessage (k_id k) (Some l)]) in
            Done (cell :: cells', has_missing, errors)
        end
  | _, _ => Done ([], has_missing, errors)           (* zip ends with the shorter side *)
  end.

(* the `while let Some(bundle) = $step { … if !has_missing { break; } }` loop *)
Fixpoint values_while_loop (step : list bundle_result) (keys : list key) (cells : list value_cell)
    (errors : list lerr) (n : nat) : outcome (list value_cell * list lerr * nat) :=
  match step with
  | r :: step' =>
      let '(b, errors) := unwrap_bundle r errors in
      let* (cells, has_missing, errors) := values_for_loop b keys cells false errors in
      if negb has_missing then Done (cells, errors, S n)                         (* break *)
      else values_while_loop step' keys cells errors (S n)
  | [] => Done (cells, errors, n)
  end.

(* the closing `keys.iter().zip(cells).map(|(key, value)| match value { … }).collect()` *)
Fixpoint values_collect (keys : list key) (cells : list value_cell) (errors : list lerr)
  : list (option bytes) * list lerr :=
  match keys, cells with
  | k :: keys', cell :: cells' =>
      match cell with
      | VPresent v =>
          let '(res, errors) := values_collect keys' cells' errors in (Some v :: res, errors)
      | VMissing =>
          let '(res, errors) := values_collect keys' cells' (errors ++ [EMissingValue (k_id k) None]) in
          (None :: res, errors)
      | VNone =>
          let '(res, errors) := values_collect keys' cells' (errors ++ [EMissingMessage (k_id k) None]) in
          (None :: res, errors)
      end
  | _, _ => ([], errors)
  end.

(* bundles.rs format_values_from_inner! *)
Definition format_values_from_inner (step : list bundle_result) (keys : list key) (errors : list lerr)
  : outcome (list (option bytes) * list lerr * nat) :=
  if is_nil keys then Done ([], errors, 0)            (* if $keys.is_empty() { return Vec::new(); } — nothing pulled *)
  else
  let cells := repeat VNone (length keys) in
  let* (cells, errors, n) := values_while_loop step keys cells errors 0 in
  let '(res, errors) := values_collect keys cells errors in
  Done (res, errors, n).

(* ---------------------------------------------------------------------------------------- *)
(* msg.attributes().map(|attr| L10nAttribute { name, value: format_pattern(attr.value(), …) }).collect() *)
Fixpoint format_attributes (b : bundle) (attrs : list (bytes * Pat)) (args : option Args)
    (format_errors : list RErr) : list (bytes * bytes) * list RErr :=
  match attrs with
  | [] => ([], format_errors)
  | (name, p) :: attrs' =>
      let '(value, e) := format_pattern b p args in
      let '(rest, format_errors) := format_attributes b attrs' args (format_errors ++ e) in
      ((name, value) :: rest, format_errors)
  end.

(* bundles.rs format_message_from_bundle *)
Definition format_message_from_bundle (b : bundle) (k : key) (format_errors : list RErr)
  : option l10n_message * list RErr :=
  match b_get_message b (k_id k) with
  | None => (None, format_errors)                                              (* `?` *)
  | Some msg =>
      let '(value, format_errors) :=
        match m_value msg with
        | Some pattern =>
            let '(v, e) := format_pattern b pattern (k_args k) in (Some v, format_errors ++ e)
        | None => (None, format_errors)
        end in
      let '(attributes, format_errors) := format_attributes b (m_attrs msg) (k_args k) format_errors in
      (Some (mkL10n value attributes), format_errors)
  end.

Definition is_none {X} (o : option X) : bool := match o with None => true | Some _ => false end.

(* the `for (key, cell) in keys.iter().zip(&mut result).filter(|(_, cell)| cell.is_none())` loop *)
Fixpoint messages_for_loop (b : bundle) (keys : list key) (cells : list (option l10n_message))
    (has_missing : bool) (errors : list lerr) : outcome (list (option l10n_message) * bool * list lerr) :=
  match keys, cells with
  | k :: keys', cell :: cells' =>
      if is_none cell then
        let '(msg, format_errors) := format_message_from_bundle b k [] in
        match msg with
        | None =>
            let* l := locale0 b in
            let* (cells', has_missing, errors) :=
              messages_for_loop b keys' cells' true (errors ++ [EMissingMessage (k_id k) (Some l)]) in
            Done (msg :: cells', has_missing, errors)
        | Some _ =>
            let* errors := push_resolver b (k_id k) format_errors errors in
            let* (cells', has_missing, errors) := messages_for_loop b keys' cells' has_missing errors in
            Done (msg :: cells', has_missing, errors)
        end
      else
        let* (cells', has_missing, errors) := messages_for_loop b keys' cells' has_missing errors in
        Done (cell :: cells', has_missing, errors)
  | _, _ => Done ([], has_missing, errors)
  end.

(* the while loop of format_messages_from_inner!; state adds is_complete *)
Fixpoint messages_while_loop (step : list bundle_result) (keys : list key) (cells : list (option l10n_message))
    (errors : list lerr) (n : nat) : outcome (list (option l10n_message) * bool * list lerr * nat) :=
  match step with
  | r :: step' =>
      let '(b, errors) := unwrap_bundle r errors in
      let* (cells, has_missing, errors) := messages_for_loop b keys cells false errors in
      if negb has_missing then Done (cells, true, errors, S n)                   (* is_complete = true; break *)
      else messages_while_loop step' keys cells errors (S n)
  | [] => Done (cells, false, errors, n)
  end.

(* `if !is_complete { for (key, _) in keys.zip(result).filter(is_none) { push MissingMessage{None} } }` *)
Fixpoint messages_tail (keys : list key) (cells : list (option l10n_message)) (errors : list lerr) : list lerr :=
  match keys, cells with
  | k :: keys', cell :: cells' =>
      if is_none cell then messages_tail keys' cells' (errors ++ [EMissingMessage (k_id k) None])
      else messages_tail keys' cells' errors
  | _, _ => errors
  end.

(* bundles.rs format_messages_from_inner! *)
Definition format_messages_from_inner (step : list bundle_result) (keys : list key) (errors : list lerr)
  : outcome (list (option l10n_message) * list lerr * nat) :=
  if is_nil keys then Done ([], errors, 0)            (* if $keys.is_empty() { return Vec::new(); } — nothing pulled *)
  else
  let result := repeat None (length keys) in
  let* (result, is_complete, errors, n) := messages_while_loop step keys result errors 0 in
  let errors := if negb is_complete then messages_tail keys result errors else errors in
  Done (result, errors, n).

(* ---------------------------------------------------------------------------------------- *)
(* bundles.rs BundlesInner: the cache over the generator's iterator / stream, as the sequence it yields *)
Inductive bundles_inner := Iter (cache : list bundle_result) | Stream (stream : list bundle_result).

(* bundles.rs format_value_from_iter / format_value_from_stream: the macro with the two `$step`s *)
Definition format_value_from_iter cache id args errors := format_value_from_inner cache id args false errors 0.
Definition format_value_from_stream stream id args errors := format_value_from_inner stream id args false errors 0.
Definition format_values_from_iter cache keys errors := format_values_from_inner cache keys errors.
Definition format_values_from_stream stream keys errors := format_values_from_inner stream keys errors.
Definition format_messages_from_iter cache keys errors := format_messages_from_inner cache keys errors.
Definition format_messages_from_stream stream keys errors := format_messages_from_inner stream keys errors.

(* bundles.rs Bundles::format_value / format_values / format_messages (the async API) *)
Definition format_value (bs : bundles_inner) id args errors :=
  match bs with
  | Iter cache => format_value_from_iter cache id args errors
  | Stream stream => format_value_from_stream stream id args errors
  end.
Definition format_values (bs : bundles_inner) keys errors :=
  match bs with
  | Iter cache => format_values_from_iter cache keys errors
  | Stream stream => format_values_from_stream stream keys errors
  end.
Definition format_messages (bs : bundles_inner) keys errors :=
  match bs with
  | Iter cache => format_messages_from_iter cache keys errors
  | Stream stream => format_messages_from_stream stream keys errors
  end.

(* the sequence a bundle set serves (iterator or stream) *)
Definition served (bs : bundles_inner) : list bundle_result :=
  match bs with Iter cache => cache | Stream stream => stream end.

(* Result<T, LocalizationError> of the *_sync API; the errors vector and the pull count ride along *)
Inductive sync_result (T : Type) := SOk (x : T) | SErr (e : lerr).
Arguments SOk {T} x.
Arguments SErr {T} e.

Definition wrap_ok {T} (o : outcome (T * list lerr * nat)) : outcome (sync_result T * list lerr * nat) :=
  let* (x, errors, n) := o in Done (SOk x, errors, n).

(* bundles.rs Bundles::format_value_sync / format_values_sync / format_messages_sync *)
Definition format_value_sync (bs : bundles_inner) id args (errors : list lerr) :=
  match bs with
  | Iter cache => wrap_ok (format_value_from_iter cache id args errors)
  | Stream _ => Done (SErr ESyncRequestInAsyncMode, errors, 0)
  end.
Definition format_values_sync (bs : bundles_inner) keys (errors : list lerr) :=
  match bs with
  | Iter cache => wrap_ok (format_values_from_iter cache keys errors)
  | Stream _ => Done (SErr ESyncRequestInAsyncMode, errors, 0)
  end.
Definition format_messages_sync (bs : bundles_inner) keys (errors : list lerr) :=
  match bs with
  | Iter cache => wrap_ok (format_messages_from_iter cache keys errors)
  | Stream _ => Done (SErr ESyncRequestInAsyncMode, errors, 0)
  end.

(* ======================================================================================== *)
(* Specification side (what the property statement talks about).                             *)

Definition bundle_of (r : bundle_result) : bundle := match r with BOk b => b | BBroken b _ => b end.
Definition carried (r : bundle_result) : list lerr :=
  match r with BOk _ => [] | BBroken _ err => map EBundle err end.

(* the hypothesis under which locales[0] does not panic *)
Definition has_locale (r : bundle_result) : Prop := b_locales (bundle_of r) <> [].
Definition loc_of (r : bundle_result) : locale := hd [] (b_locales (bundle_of r)).

(* does this locale's bundle have the message / the message with a value *)
Definition has_message (r : bundle_result) (k : key) : bool :=
  match b_get_message (bundle_of r) (k_id k) with Some _ => true | None => false end.
Definition value_pattern (r : bundle_result) (k : key) : option Pat :=
  match b_get_message (bundle_of r) (k_id k) with Some msg => m_value msg | None => None end.
Definition has_value (r : bundle_result) (k : key) : bool :=
  match value_pattern r k with Some _ => true | None => false end.

Definition resolver_entry (r : bundle_result) (id : bytes) (fe : list RErr) : list lerr :=
  if is_nil fe then [] else [EResolver id (loc_of r) fe].

(* what a bundle that is asked for key k (not yet answered) adds to the error list *)
Definition value_entry (r : bundle_result) (k : key) : list lerr :=
  match b_get_message (bundle_of r) (k_id k) with
  | None => [EMissingMessage (k_id k) (Some (loc_of r))]
  | Some msg =>
      match m_value msg with
      | None => [EMissingValue (k_id k) (Some (loc_of r))]
      | Some p => resolver_entry r (k_id k) (snd (format_pattern (bundle_of r) p (k_args k)))
      end
  end.
Definition message_entry (r : bundle_result) (k : key) : list lerr :=
  match format_message_from_bundle (bundle_of r) k [] with
  | (None, _) => [EMissingMessage (k_id k) (Some (loc_of r))]
  | (Some _, fe) => resolver_entry r (k_id k) fe
  end.

(* the formatting from the first locale (in the given order) whose bundle has the message with a value *)
Fixpoint first_value (seq : list bundle_result) (k : key) : option bytes :=
  match seq with
  | [] => None
  | r :: seq' =>
      match value_pattern r k with
      | Some p => Some (fst (format_pattern (bundle_of r) p (k_args k)))
      | None => first_value seq' k
      end
  end.
(* the message (optional value, attributes in source order) from the first locale that has it *)
Fixpoint first_message (seq : list bundle_result) (k : key) : option l10n_message :=
  match seq with
  | [] => None
  | r :: seq' =>
      match fst (format_message_from_bundle (bundle_of r) k []) with
      | Some m => Some m
      | None => first_message seq' k
      end
  end.

(* the closing, locale-less entry of a key nobody answered *)
Definition value_final (seq : list bundle_result) (k : key) : list lerr :=
  if existsb (fun r => has_value r k) seq then []
  else if existsb (fun r => has_message r k) seq then [EMissingValue (k_id k) None]
  else [EMissingMessage (k_id k) None].
Definition message_final (seq : list bundle_result) (k : key) : list lerr :=
  if existsb (fun r => has_message r k) seq then [] else [EMissingMessage (k_id k) None].

(* Error groups: bundle by bundle (locale-major); within a bundle first the errors it carries, then,
   key by key in request order, the entry of every key not answered by an earlier bundle (`pre`). *)
Section Groups.
Variable hit : bundle_result -> key -> bool.
Variable entry : bundle_result -> key -> list lerr.
Definition answered (pre : list bundle_result) (k : key) : bool := existsb (fun r => hit r k) pre.
Definition group (pre : list bundle_result) (r : bundle_result) (keys : list key) : list lerr :=
  carried r ++ flat_map (fun k => if answered pre k then [] else entry r k) keys.
Fixpoint groups (pre visited : list bundle_result) (keys : list key) : list lerr :=
  match visited with
  | [] => []
  | r :: visited' => group pre r keys ++ groups (pre ++ [r]) visited' keys
  end.
(* how many bundles a walk for `keys` visits: it stops after the first bundle at which every key is
   answered, and otherwise runs to the end of the sequence *)
Fixpoint visits (pre rest : list bundle_result) (keys : list key) : nat :=
  match rest with
  | [] => 0
  | r :: rest' => if forallb (answered (pre ++ [r])) keys then 1 else S (visits (pre ++ [r]) rest' keys)
  end.
(* a batch request: nothing is visited for an empty key list (the macros return before the loop) *)
Definition batch_visits (seq : list bundle_result) (keys : list key) : nat :=
  if is_nil keys then 0 else visits [] seq keys.
End Groups.

(* Abstraction of cache.rs used by the correspondence run for repeated requests on one instance:
   items already pulled are served from the cache, so after a request that visits d items the
   generator has yielded max(pulled, d) items. *)
Definition pulled_after (pulled d : nat) : nat := Nat.max pulled d.

End Walk.

Arguments BOk {Pat BErr} b.
Arguments BBroken {Pat BErr} b err.
Arguments EBundle {RErr BErr} error.
Arguments EResolver {RErr BErr} id loc errors.
Arguments EMissingMessage {RErr BErr} id loc.
Arguments EMissingValue {RErr BErr} id loc.
Arguments ESyncRequestInAsyncMode {RErr BErr}.
Arguments SOk {RErr BErr T} x.
Arguments SErr {RErr BErr T} e.

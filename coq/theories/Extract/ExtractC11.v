(* Extract/ExtractC11.v — executable entry point of the FluentArgs model for the
   correspondence check, and its extraction to OCaml. *)
From FluentV Require Import Base.Sexp Base.Bytes Base.Outcome Bundle.Args.

(* value: any sexp; (conv impl-form canonical-form) carries the canonical form for the model *)
Definition dec_value (x : sexp) : sexp :=
  match x with
  | L [t; _; canon] => if is_sym "conv" t then canon else x
  | _ => x
  end.

Inductive op := OSet (k : bytes) (v : sexp) | OGet (k : bytes) | OIter | OBad.

Definition dec_op (x : sexp) : op :=
  match x with
  | L [t; _; A k; v] => if is_sym "set" t then OSet k (dec_value v) else OBad
  | L [t; _; A k] => if is_sym "get" t then OGet k else OBad
  | L [t] => if is_sym "iter" t then OIter else OBad
  | _ => OBad
  end.

Definition enc_pair (kv : bytes * sexp) : sexp := L [A (fst kv); snd kv].

Fixpoint run_ops (a : args sexp) (ops : list op) : list sexp :=
  match ops with
  | [] => []
  | OSet k v :: r =>
      match set sexp a k v with
      | Done a' => run_ops a' r
      | Panic t => [L [sym "PANIC"; sym t]]
      | OutOfFuel => [sym "OUT-OF-FUEL"]
      end
  | OGet k :: r => soutcome (sopt (fun v => v)) (get sexp a k) :: run_ops a r
  | OIter :: r => slist enc_pair (iter sexp a) :: run_ops a r
  | OBad :: _ => [bad]
  end.

(* case: (c11 <mode> (op ...)) ; mode (set | from_iter | macro) only matters to the Rust side *)
Definition run_case (c : sexp) : sexp :=
  match c with
  | L [_; _; L ops] => L (run_ops (new sexp) (map dec_op ops))
  | _ => bad
  end.

Require Extraction.
Require Import ExtrOcamlBasic.
Cd "ocaml/gen".
Extraction "c11_model.ml" run_case.
Cd "../..".

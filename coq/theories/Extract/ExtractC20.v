(* Extract/ExtractC20.v — executable entry point of the pseudolocalization model for the
   correspondence check, and its extraction to OCaml.
   case:   (pseudo #text)
   result: (ok ((start end) ...) (#dom x 8) (#transform x 4) none)
     dom outputs in the order (flipped, elongate, with_markers) = 000 001 010 011 100 101 110 111,
     transform outputs in the order (flipped, elongate) = 00 01 10 11.
   The spans are those of the Gallina matcher (Pseudo.v Section Matcher); the Rust side prints the
   real regex's capture spans in the same place, so the matcher is validated together with the
   outputs.  The last field is filled only by the Rust side (format_pattern with set_transform).

   \w and \s on non-ASCII characters: a table for the characters the generators use
   (e-acute, sharp s, ARABIC-INDIC DIGIT THREE, a CJK ideograph are \w; NBSP, IDEOGRAPHIC SPACE,
   LINE SEPARATOR, NEL are \s; every other non-ASCII character is neither).                      *)
From FluentV Require Import Base.Sexp Base.Bytes Base.Outcome Base.Utf8 Pseudo.Pseudo.

(* second row: the "near letters" of props/C20.py (case-fold/compatibility relatives of ASCII letters, look-alikes, combining marks):
   all of them are Alphabetic or Mark, hence \w for the regex crate *)
Definition word_na (c : N) : bool :=
  byte_in c [233; 223; 1635; 20013]%N ||
  byte_in c [170; 181; 186; 230; 304; 305; 339; 383; 768; 769; 913; 1072; 1077; 7838; 8486; 8490; 8491; 8560; 9424; 64257; 65313; 65345; 65370; 119808; 119834]%N.
Definition space_na (c : N) : bool := byte_in c [160; 12288; 8232; 133]%N.

Definition enc_span (p : nat * nat) : sexp := L [snat (fst p); snat (snd p)].

Definition flags2 : list (bool * bool) := [(false, false); (false, true); (true, false); (true, true)].
Definition flags3 : list (bool * bool * bool) :=
  flat_map (fun fe => [(fe, false); (fe, true)]) flags2.

Fixpoint collect (l : list (outcome bytes)) : outcome (list sexp) :=
  match l with
  | [] => Done []
  | o :: r => let* x := o in let* y := collect r in Done (A x :: y)
  end.

Definition run_case (c : sexp) : sexp :=
  match c with
  | L [t; A text] =>
      if is_sym "pseudo" t then
        let spans := excluded_spans word_na space_na text in
        let doms := collect (map (fun '(f, e, m) => transform_dom spans text f e m) flags3) in
        let trs := collect (map (fun '(f, e) => transform text f e) flags2) in
        match doms, trs with
        | Done d, Done x => L [sym "ok"; L (map enc_span spans); L d; L x; sym "none"]
        | Panic msg, _ | _, Panic msg => L [sym "PANIC"; sym msg]
        | _, _ => sym "OUT-OF-FUEL"
        end
      else bad
  | _ => bad
  end.

Require Extraction.
Require Import ExtrOcamlBasic.
Cd "ocaml/gen".
Extraction "c20_model.ml" run_case.
Cd "../..".

(* Extract/ExtractC06.v — executable entry point of the resolver model for the correspondence
   checks of C06, C08 and C09 (one extraction, `resolver_model.ml`), mirror of
   harness/src/bin/bundle_run.rs.

   case   (fmt <cfg> (<res> ...) <entry> <args> [<expectation for the oracle, ignored here>])
     cfg    (cfg <iso:true|false> <transform:none|upper|brackets> <formatter:none|num|all>
                 (<function name> ...) (<locale> ...) <flavour:single|concurrent>)
     res    (r #ftl-text <resource tree as Syntax/Ast.v encodes it>)      the model ignores the text
     entry  (msg #id none|(some #attr)) | (term #id none|(some #attr))
     args   none | (args (#key <value>) ...)            FluentArgs::set in this order
     value  (str b|o #bytes) | (mnum #display-text <options>) | (conv <impl form> <model form>)
            | (custom #payload) | none | error
   result (ok missing) | (PANIC tag) | OUT-OF-FUEL |
          (ok (fmt #text (err ...)) (wrt #text (err ...)) (calls (c #id (value ...) ((#k value) ...)) ...)
              (alt #text (err ...)))                    alt = format_pattern with isolation flipped
     value  (str #bytes) | (num #display-text <options>) | (custom #payload) | none | error
     err    (Reference (Function #id)) | (Reference (Message #id attr)) | (Reference (Term #id attr))
            | (Reference (Variable #id)) | (NoValue #id) | MissingDefault | Cyclic | TooManyPlaceables *)
From FluentV Require Import Base.Sexp Base.Bytes Base.Outcome Syntax.Ast Syntax.UnescapeModel
  Bundle.Args Bundle.Number Bundle.Plural Bundle.ResolverAst Bundle.ResolverModel.

Local Open Scope N_scope.

(* ---------- values ---------- *)
Definition dec_opt_N (x : sexp) : option N :=
  match x with
  | L [_; I z] => Some (Z.to_N z)
  | _ => None
  end.

Definition dec_options (x : sexp) : noptions :=
  match x with
  | L [ty; st; cu; cd; ug; mi; mf; xf; ms; xs] =>
      NOptions (if is_sym "ordinal" ty then Ordinal else Cardinal)
               (if is_sym "currency" st then StyleCurrency else if is_sym "percent" st then StylePercent else StyleDecimal)
               (match cu with L [_; A c] => Some c | _ => None end)
               (if is_sym "code" cd then CurCode else if is_sym "name" cd then CurName else CurSymbol)
               (is_sym "true" ug)
               (dec_opt_N mi) (dec_opt_N mf) (dec_opt_N xf) (dec_opt_N ms) (dec_opt_N xs)
  | _ => default_options
  end.

Definition enc_options (o : noptions) : sexp :=
  L [ match o_type o with Cardinal => sym "cardinal" | Ordinal => sym "ordinal" end;
      match o_style o with StyleDecimal => sym "decimal" | StyleCurrency => sym "currency" | StylePercent => sym "percent" end;
      sopt A (o_currency o);
      match o_currency_display o with CurSymbol => sym "symbol" | CurCode => sym "code" | CurName => sym "name" end;
      sbool (o_use_grouping o);
      sopt sN (o_minimum_integer_digits o); sopt sN (o_minimum_fraction_digits o);
      sopt sN (o_maximum_fraction_digits o); sopt sN (o_minimum_significant_digits o);
      sopt sN (o_maximum_significant_digits o) ].

(* Rust's Display text of an f64 -> fval *)
Definition fval_of_display (t : bytes) : fval :=
  if str_is "NaN" t then FNaN
  else if str_is "inf" t then FInf false
  else if str_is "-inf" t then FInf true
  else match f64_from_str_exact t with Some v => v | None => FNaN end.

Fixpoint dec_value (fuel : nat) (x : sexp) : fvalue :=
  match fuel with
  | O => VError
  | S fuel' =>
      match x with
      | L [t; y; z] =>
          if is_sym "conv" t then dec_value fuel' z
          else if is_sym "str" t then match z with A s => VString s | _ => VError end
          else if is_sym "mnum" t then
            match y with A s => VNumber (FNum (fval_of_display s) (dec_options z)) | _ => VError end
          else VError
      | L [t; A s] => if is_sym "custom" t then VCustom s else VError
      | A _ => if is_sym "none" x then VNone else VError
      | _ => VError
      end
  end.

Definition enc_value (v : fvalue) : sexp :=
  match v with
  | VString s => L [sym "str"; A s]
  | VNumber n => L [sym "num"; A (fval_to_string (n_value n)); enc_options (n_options n)]
  | VCustom p => L [sym "custom"; A p]
  | VNone => sym "none"
  | VError => sym "error"
  end.

Definition enc_ref (k : reference_kind) : sexp :=
  match k with
  | RefFunction id => L [sym "Function"; A id]
  | RefMessage id a => L [sym "Message"; A id; sopt A a]
  | RefTerm id a => L [sym "Term"; A id; sopt A a]
  | RefVariable id => L [sym "Variable"; A id]
  end.

Definition enc_error (e : resolver_error) : sexp :=
  match e with
  | Reference k => L [sym "Reference"; enc_ref k]
  | NoValue id => L [sym "NoValue"; A id]
  | MissingDefault => sym "MissingDefault"
  | Cyclic => sym "Cyclic"
  | TooManyPlaceables => sym "TooManyPlaceables"
  end.

Definition enc_call (c : call_record) : sexp :=
  L [sym "c"; A (call_id c); slist enc_value (call_positional c);
     slist (fun kv => L [A (fst kv); enc_value (snd kv)]) (Args.iter fvalue (call_named c))].

(* ---------- the fixed test configuration (same code as in bundle_run.rs) ---------- *)
Definition upper_byte (c : N) : N := if N.leb 97 c && N.leb c 122 then c - 32 else c.
Definition transform_of (x : sexp) : option (bytes -> bytes) :=
  if is_sym "upper" x then Some (map upper_byte)
  else if is_sym "brackets" x then Some (fun s => [91] ++ s ++ [93])
  else None.

Definition formatter_of (x : sexp) : option (fvalue -> option bytes) :=
  if is_sym "num" x then
    Some (fun v => match v with VNumber n => Some ([35] ++ fnumber_as_string n) | _ => None end)
  else if is_sym "all" x then
    Some (fun v => match v with
                   | VNumber n => Some ([35] ++ fnumber_as_string n)
                   | VString s => Some ([60] ++ s ++ [62])
                   | VNone => Some [126]
                   | _ => None
                   end)
  else None.

Definition custom_print (p : bytes) : bytes := [60; 60] ++ p ++ [62; 62].

Fixpoint N_digits (fuel : nat) (n : N) (acc : bytes) : bytes :=
  match fuel with
  | O => acc
  | S f => let acc' := (48 + n mod 10) :: acc in
           if N.ltb n 10 then acc' else N_digits f (n / 10) acc'
  end.

Definition concat_piece (v : fvalue) : bytes :=
  match v with
  | VString s => s
  | VNumber n => fnumber_as_string n
  | VCustom _ => [67]
  | VNone => [78]
  | VError => [69]
  end.

Definition test_function (name : bytes) (pos : list fvalue) (named : fargs) : fvalue :=
  if str_is "IDENTITY" name then match pos with v :: _ => v | [] => VNone end
  else if str_is "CONCAT" name then
    VString (flat_map concat_piece pos ++
             flat_map (fun kv => [59] ++ fst kv ++ [61] ++ concat_piece (snd kv)) (Args.iter fvalue named))
  else if str_is "FAIL" name then VError
  else if str_is "NONE" name then VNone
  else if str_is "COUNT" name then VString [99]
  else if str_is "CUSTOM" name then
    VCustom (match pos with VString s :: _ => s | _ => bytes_of_string "dflt" end)
  else if str_is "NUM" name then
    VNumber (FNum (FDec false (N_digits 40 (N.of_nat (length pos)) []) []) default_options)
  else VError.

Definition unescape_total (s : bytes) : bytes :=
  match unescape_unicode [] s with Done r => r | _ => bytes_of_string "<unescape panicked>" end.
Definition unescape_total_s (s : bytes) : bytes :=
  match unescape_unicode_to_string s with Done c => cow_bytes c | _ => bytes_of_string "<unescape panicked>" end.

(* ---------- bundle construction: add_resource for each resource, then add_function for each name
   (errors ignored): the first registration of an id wins, across kinds ---------- *)
Definition add_entry (m : list (bytes * bentry)) (id : bytes) (e : bentry) : list (bytes * bentry) :=
  match entry_find m id with Some _ => m | None => m ++ [(id, e)] end.

Definition add_ast_entry (m : list (bytes * bentry)) (e : entry) : list (bytes * bentry) :=
  match e with
  | Message id v attrs _ => add_entry m id (EMessage v attrs)
  | Term id v attrs _ => add_entry m id (ETerm v attrs)
  | _ => m
  end.

Definition add_function (m : list (bytes * bentry)) (name : bytes) : list (bytes * bentry) :=
  add_entry m name (EFunction (if str_is "NUMBER" name then FnNUMBER else FnUser name)).

Definition dec_res (x : sexp) : option resource :=
  match x with
  | L [_; _; tree] => dec_resource tree
  | _ => None
  end.

Definition atoms (x : sexp) : list bytes :=
  match x with
  | L l => flat_map (fun y => match y with A s => [s] | _ => [] end) l
  | _ => []
  end.

Fixpoint first_term (entries : list entry) (id : bytes) : option (pattern * list attribute) :=
  match entries with
  | [] => None
  | Term id' v attrs _ :: r => if bytes_eqb id' id then Some (v, attrs) else first_term r id
  | _ :: r => first_term r id
  end.

Definition pick_pattern (b : bundle) (all_entries : list entry) (x : sexp) : option pattern :=
  match x with
  | L [t; A id; at_] =>
      let attr := match at_ with L [_; A a] => Some a | _ => None end in
      if is_sym "msg" t then
        match get_entry_message b id with
        | Some (v, attrs) => match attr with Some a => find_attribute attrs a | None => v end
        | None => None
        end
      else
        match first_term all_entries id with
        | Some (v, attrs) => match attr with Some a => find_attribute attrs a | None => Some v end
        | None => None
        end
  | _ => None
  end.

(* which of the bundle's pattern objects the harness hands to format_pattern: for (msg id attr) the
   object reached through bundle.get_message(id) — key (false, id, attr); for (term id attr) the first
   Term of that id in the resources, which is the bundle's object (true, id, attr) exactly when the
   bundle registered that term (no earlier entry of the same id), and otherwise an object no
   reference can reach *)
Definition pick_top (b : bundle) (x : sexp) : option pkey :=
  match x with
  | L [t; A id; at_] =>
      let attr := match at_ with L [_; A a] => Some a | _ => None end in
      if is_sym "msg" t then Some (PKey false id attr)
      else match get_entry_term b id with
           | Some _ => Some (PKey true id attr)
           | None => None
           end
  | _ => None
  end.

Definition dec_args (x : sexp) : option fargs :=
  match x with
  | L (_ :: kvs) =>
      let pairs := flat_map (fun kv => match kv with
                                       | L [A k; v] => [(k, dec_value 4 v)]
                                       | _ => []
                                       end) kvs in
      match Args.from_iter fvalue pairs with Done a => Some a | _ => None end
  | _ => None
  end.

Definition enc_result (text : bytes) (sc : scope) : list sexp :=
  [A text; slist enc_error (sc_errors sc)].

Definition run_case (c : sexp) : sexp :=
  match c with
  | L (_ :: L [_; iso; tr; fm; funcs; L locales; _] :: L ress :: entry :: args :: _) =>
      match opt_all (map dec_res ress) with
      | None => bad
      | Some resources =>
          let all_entries := concat resources in
          let m := fold_left add_function (atoms funcs) (fold_left add_ast_entry all_entries []) in
          let iso_b := is_sym "true" iso in
          let first_locale := match locales with A l :: _ => l | _ => [] end in
          let run (iso' : bool) :=
            let b := Bundle m iso' in
            match pick_pattern b all_entries entry with
            | None => None
            | Some p =>
                let fuel := fuel_of b p in
                let fmt := format_pattern true test_function (transform_of tr) (formatter_of fm)
                             (rules_for_locale first_locale) custom_print unescape_total unescape_total_s f64_from_str_exact
                             b (dec_args args) fuel (pick_top b entry) p [] in
                let wrt := write_pattern true test_function (transform_of tr) (formatter_of fm)
                             (rules_for_locale first_locale) custom_print unescape_total unescape_total_s f64_from_str_exact
                             b (dec_args args) fuel (pick_top b entry) p [] in
                Some (fmt, wrt)
            end in
          match run iso_b, run (negb iso_b) with
          | Some (fmt, wrt), Some (alt, _) =>
              soutcome (fun x => x)
                (let* (ftext, fsc) := fmt in
                 let* (wtoks, wsc) := wrt in
                 let* (atext, asc) := alt in
                 Done (L [ L (sym "fmt" :: enc_result ftext fsc);
                           L (sym "wrt" :: enc_result (flatten wtoks) wsc);
                           L (sym "calls" :: map enc_call (sc_calls fsc));
                           L (sym "alt" :: enc_result atext asc) ]))
          | _, _ => L [sym "ok"; sym "missing"]
          end
      end
  | _ => bad
  end.

Require Extraction.
Require Import ExtrOcamlBasic.
Cd "ocaml/gen".
Extraction "resolver_model.ml" run_case.
Cd "../..".

(* Extract/ExtractC19.v — executable entry point of the ResourceManager model for the
   correspondence check, and its extraction to OCaml.

   case   (c19 #scheme ((#content (res entry ...)) ...) (step ...))
          scheme: relative to the run's temp directory (the Rust side prepends it)
          table : what parse_runtime yields for each file content used (unknown content: empty)
          step  = (write #path #bytes) | (mkdir #path) | (remove #path)        file-system changes
                | (bundle (#locale ...) (#res_id ...) (#probe-id ...))          get_bundle
                | (iter-new (#locale ...) (#res_id ...))                        get_bundles
                | (iter-next k (#probe-id ...))                                 next() on the k-th iterator
   result one item per step: (fs) | <res> | (iter) | none | (some <res>) ; a panic ends the list with (PANIC)
          <res> = (ok (look ...) ...) | (err (io notfound|isdir|invalidutf8|denied) | (fluent (overriding kind #id)) ...)
   Step k is served at time k; the file system at that time is the state after the changes so far:
   a file with valid UTF-8 reads Ok, with invalid UTF-8 InvalidUtf8, a directory IsDir, nothing NotFound. *)
From FluentV Require Import Base.Sexp Base.Bytes Base.Outcome Base.Utf8 Syntax.Ast Bundle.Registry Resmgr.Resmgr.

Inductive node := NFile (bs : bytes) | NDir.

Fixpoint adelete {V} (m : list (bytes * V)) (k : bytes) : list (bytes * V) :=
  match m with
  | [] => []
  | (k', v) :: r => if bytes_eqb k' k then r else (k', v) :: adelete r k
  end.

Definition fs_of (cur : list (bytes * node)) (p : bytes) : read_result :=
  match afind cur p with
  | Some (NFile bs) => if utf8_valid bs then ReadOk bs else ReadErr InvalidUtf8
  | Some NDir => ReadErr IsDir
  | None => ReadErr NotFound
  end.

Definition parse_of (table : list (bytes * resource)) (s : bytes) : resource :=
  match afind table s with Some r => r | None => [] end.

Definition dec_atoms (l : list sexp) : list bytes :=
  flat_map (fun x => match x with A b => [b] | _ => [] end) l.

Definition enc_kind (k : entry_kind) : sexp :=
  match k with KMessage => sym "message" | KTerm => sym "term" | KFunction => sym "function" end.
Definition enc_io (e : io_error) : sexp :=
  match e with NotFound => sym "notfound" | IsDir => sym "isdir" | InvalidUtf8 => sym "invalidutf8" | Denied => sym "denied" end.
Definition enc_rerr (e : resmgr_error) : sexp :=
  match e with
  | Io e' => L [sym "io"; enc_io e']
  | Fluent (Overriding k id) => L [sym "fluent"; L [sym "overriding"; enc_kind k; A id]]
  end.

Definition pattern_text (p : pattern) : bytes :=
  flat_map (fun el => match el with TextElement v => v | PlaceableElement _ => [] end) (pattern_elements p).

Definition enc_look (b : rbundle) (id : bytes) : sexp :=
  L [sym "look"; A id; sbool (has_message F0 b id);
     sopt (fun m => L [sopt enc_pattern (value m); L (map enc_attribute (attributes m))]) (get_message F0 b id);
     sopt (fun t => A (pattern_text (term_value t))) (get_entry_term F0 b id)].

Definition enc_res (probes : list bytes) (r : result rbundle (list resmgr_error)) : sexp :=
  match r with
  | Ok b => L (sym "ok" :: map (enc_look b) probes)
  | Err es => L (sym "err" :: map enc_rerr es)
  end.

Definition iter_state := (list bytes * list bytes * nat)%type.

Fixpoint set_nth {X} (l : list X) (k : nat) (x : X) : list X :=
  match l, k with
  | [], _ => []
  | _ :: r, O => x :: r
  | y :: r, S k' => y :: set_nth r k' x
  end.

Fixpoint run_steps (table : list (bytes * resource)) (steps : list sexp) (t : nat)
  (m : manager) (cur : list (bytes * node)) (its : list iter_state) : list sexp :=
  match steps with
  | [] => []
  | st :: rest =>
      let fs := fun (_ : nat) p => fs_of cur p in
      let parse := parse_of table in
      match st with
      | L [tg; A p; A bs] =>
          if is_sym "write" tg then L [sym "fs"] :: run_steps table rest (S t) m (ainsert cur p (NFile bs)) its
          else [bad]
      | L [tg; A p] =>
          if is_sym "mkdir" tg then L [sym "fs"] :: run_steps table rest (S t) m (ainsert cur p NDir) its
          else if is_sym "remove" tg then L [sym "fs"] :: run_steps table rest (S t) m (adelete cur p) its
          else [bad]
      | L [tg; L ls; L ids; L probes] =>
          if is_sym "bundle" tg then
            match get_bundle fs parse m t (dec_atoms ls) (dec_atoms ids) with
            | Done (m', r) => enc_res (dec_atoms probes) r :: run_steps table rest (S t) m' cur its
            | _ => [L [sym "PANIC"]]
            end
          else [bad]
      | L [tg; L ls; L ids] =>
          if is_sym "iter-new" tg then
            L [sym "iter"] :: run_steps table rest (S t) m cur
                                (its ++ [(dec_atoms ls, dec_atoms ids, get_bundles m (dec_atoms ls) (dec_atoms ids))])
          else [bad]
      | L [tg; I k; L probes] =>
          if is_sym "iter-next" tg then
            match nth_error its (Z.to_nat k) with
            | None => [bad]
            | Some (ls, ids, idx) =>
                match bundles_next fs parse m t ls ids idx with
                | Done (m', idx', r) =>
                    sopt (enc_res (dec_atoms probes)) r
                    :: run_steps table rest (S t) m' cur (set_nth its (Z.to_nat k) (ls, ids, idx'))
                | _ => [L [sym "PANIC"]]
                end
            end
          else [bad]
      | _ => [bad]
      end
  end.

Definition dec_table_entry (x : sexp) : option (bytes * resource) :=
  match x with
  | L [A content; r] => match dec_resource r with Some r' => Some (content, r') | None => None end
  | _ => None
  end.

Definition run_case (c : sexp) : sexp :=
  match c with
  | L [_; A scheme; L table; L steps] =>
      match opt_all (map dec_table_entry table) with
      | Some tb => L (run_steps tb steps 0 (new_manager scheme) [] [])
      | None => bad
      end
  | _ => bad
  end.

Require Extraction.
Require Import ExtrOcamlBasic.
Cd "ocaml/gen".
Extraction "c19_model.ml" run_case.
Cd "../..".

(* Extract/ExtractC17.v — executable entry point of the Cache / AsyncCache model for the
   correspondence check, and its extraction to OCaml.

   case:  (c17 async|sync VIA (CONSUMER ...) (r|p ...) (STEP ...))
     CONSUMER = (API d ...)      a request whose keys are first answered by bundles d ... (API: v | vs | ms)
     STEP     = c                poll the future of request c once        (async)
              | f                the pending source becomes ready          (async)
     sync: the requests are executed to completion in the order listed; STEP list is empty.
   Items are the naturals 0,1,2.. in script order (bundle i carries the text "b<i>" and the
   messages m0..m<i>, so a key of depth d is first answered by bundle d).                       *)
From FluentV Require Import Base.Sexp Base.Outcome Fallback.Cache.

(* a key is d, or (e d) / (g d): a message present from bundle d on whose value formats WITH a resolver
   error (missing variable / unknown reference).  For the request loop such a key is FOUND in bundle d:
   the answer of a bundle is "has the message", whatever its formatting reports. *)
Definition dec_nat (x : sexp) : nat :=
  match x with
  | I z => Z.to_nat z
  | L [_; I z] => Z.to_nat z
  | _ => 0
  end.

Definition dec_consumer (x : sexp) : list nat :=
  match x with L (_ :: ds) => map dec_nat ds | _ => [] end.

Fixpoint dec_script (l : list sexp) (i : nat) : list (sstep nat) :=
  match l with
  | [] => []
  | x :: r => if is_sym "r" x then SReady i :: dec_script r (S i) else SPending :: dec_script r i
  end.

Inductive xstep := XPoll (c : nat) | XFire.
Definition dec_step (x : sexp) : xstep := match x with I z => XPoll (Z.to_nat z) | _ => XFire end.

(* bundle x answers every key still open of a request with depths ds *)
Definition answers (ds : list nat) (x : nat) : bool := forallb (fun d => Nat.leb d x) ds.
(* the value of key d: text of the first bundle seen that has message m<d> *)
Definition key_result (seen : list nat) (d : nat) : option nat := find (fun x => Nat.leb d x) seen.
Definition enc_results (seen : list nat) (ds : list nat) : sexp := slist (sopt snat) (map (key_result seen) ds).

(* format_values / format_messages with an empty key list (format_value always has one id) *)
Definition no_keys (ds : list nat) : bool := match ds with [] => true | _ => false end.

Definition woken_flags (cs : list (consumer nat)) : list bool := map woken cs.
Fixpoint newly (before after : list bool) (i : nat) : list sexp :=
  match before, after with
  | b :: br, a :: ar => if andb a (negb b) then snat i :: newly br ar (S i) else newly br ar (S i)
  | _, _ => []
  end.

Definition seen_of (s : astate nat) (c : nat) : list nat :=
  match nth_error (cons s) c with Some k => seen k | None => [] end.

(* request-level bookkeeping next to the cache state: which requests have completed *)
Definition set_nth {X} (n : nat) (x : X) (l : list X) : list X := upd n (fun _ => x) l.

Definition counters (s : astate nat) : list sexp := [snat (n_polls s); snat (n_some s + n_none s); snat (n_some s)].

(* one scheduled step; returns new state, completion flags, output *)
Definition xstep_run (fuel : nat) (reqs : list (list nat)) (s : astate nat) (done : list bool) (a : xstep)
  : astate nat * list bool * sexp :=
  match a with
  | XFire =>
      let s' := source_ready s in
      (s', done, L ([sym "fire"; L (newly (woken_flags (cons s)) (woken_flags (cons s')) 0)] ++ counters s'))
  | XPoll c =>
      match nth_error reqs c, nth_error done c with
      | Some ds, Some false =>
          let s0 := clear_woken c s in
          match request_step fuel (no_keys ds) (answers ds) s c with
          | Done (s', p) =>
              let w := L (newly (woken_flags (cons s0)) (woken_flags (cons s')) 0) in
              match p with
              | Pending => (s', done, L ([sym "poll"; sym "pending"; w] ++ counters s'))
              | Ready _ => (s', set_nth c true done,
                            L ([sym "poll"; L [sym "ready"; enc_results (seen_of s' c) ds]; w] ++ counters s'))
              end
          | Panic t => (s, done, L [sym "PANIC"; sym t])
          | OutOfFuel => (s, done, sym "OUT-OF-FUEL")
          end
      | _, _ => (s, done, sym "skip")
      end
  end.

Fixpoint xrun (fuel : nat) (reqs : list (list nat)) (s : astate nat) (done : list bool) (l : list xstep)
  : astate nat * list bool * list sexp :=
  match l with
  | [] => (s, done, [])
  | a :: r =>
      let '(s1, d1, o) := xstep_run fuel reqs s done a in
      let '(s2, d2, os) := xrun fuel reqs s1 d1 r in
      (s2, d2, o :: os)
  end.

(* the fair drain after the schedule: poll the first request that is not complete and is not
   waiting or has been woken; else fire the source if it holds a waker; else stop *)
Fixpoint find_runnable (cs : list (consumer nat)) (done : list bool) (i : nat) : option nat :=
  match cs, done with
  | k :: cr, d :: dr => if andb (negb d) (orb (negb (blocked k)) (woken k)) then Some i else find_runnable cr dr (S i)
  | _, _ => None
  end.

Fixpoint drain (n : nat) (fuel : nat) (reqs : list (list nat)) (s : astate nat) (done : list bool)
  : astate nat * list bool * list sexp :=
  match n with
  | O => (s, done, [sym "DRAIN-OVERFLOW"])
  | S n' =>
      match find_runnable (cons s) done 0 with
      | Some c =>
          let '(s1, d1, o) := xstep_run fuel reqs s done (XPoll c) in
          let '(s2, d2, os) := drain n' fuel reqs s1 d1 in
          (s2, d2, L [snat c; o] :: os)
      | None =>
          match waiting s with
          | Some _ =>
              let '(s1, d1, o) := xstep_run fuel reqs s done XFire in
              let '(s2, d2, os) := drain n' fuel reqs s1 d1 in
              (s2, d2, L [sym "f"; o] :: os)
          | None => (s, done, [])
          end
      end
  end.

(* what a request saw is observable (on the Rust side) only through its keys: none for an empty key list *)
Definition visible_seen (reqs : list (list nat)) (i : nat) (seen : list nat) : list nat :=
  match nth_error reqs i with Some (_ :: _) => seen | _ => [] end.

Fixpoint enc_final (reqs : list (list nat)) (s : astate nat) (done : list bool) (i : nat) : list sexp :=
  match done with
  | [] => []
  | d :: r => L [sym (if d then "done" else "waiting"); slist snat (visible_seen reqs i (seen_of s i))] :: enc_final reqs s r (S i)
  end.

Definition run_async (reqs : list (list nat)) (script : list (sstep nat)) (sched : list xstep) : sexp :=
  let n := length reqs in
  let fuel := S (S (length script)) in
  let done0 := repeat false n in
  let '(s1, d1, outs) := xrun fuel reqs (init script n) done0 sched in
  let '(s2, d2, douts) := drain 1000 fuel reqs s1 d1 in
  L [L outs; L douts; L (enc_final reqs s2 d2 0)].

(* sync: request i uses handle i and runs to completion *)
Fixpoint run_sync_reqs (fuel : nat) (reqs : list (list nat)) (c : cache nat) (i : nat) : cache nat * list sexp :=
  match reqs with
  | [] => (c, [])
  | ds :: r =>
      match request_sync_step fuel (no_keys ds) (answers ds) c i with
      | Done (c1, _) =>
          let seen_i := match nth_error (c_cons c1) i with Some k => seen k | None => [] end in
          let o := L [sym "req"; enc_results seen_i ds; snat (c_calls c1); snat (length (c_items c1));
                      slist snat (match ds with [] => [] | _ => seen_i end)] in
          let '(c2, os) := run_sync_reqs fuel r c1 (S i) in
          (c2, o :: os)
      | Panic t => (c, [L [sym "PANIC"; sym t]])
      | OutOfFuel => (c, [sym "OUT-OF-FUEL"])
      end
  end.

Definition run_sync (reqs : list (list nat)) (script : list (sstep nat)) : sexp :=
  let src := src_items script in
  let fuel := S (S (length src)) in
  L (snd (run_sync_reqs fuel reqs (cache_new src (length reqs)) 0)).

(* ---- handle level: one scheduled step = `step` of the LTS (one poll_next of a named handle / SourceReady),
        one history entry = `cache_step` (one next() of a named CacheIter)
   case: (c17 hasync K () (r|p ...) (c|f ...))      (c17 hsync K () (r ...) (i ...))                  *)
Definition hcounters (s : astate nat) : list sexp :=
  [snat (n_polls s); snat (n_some s + n_none s); snat (n_some s); snat (length (items s))].

Definition enc_poll (p : poll (option nat)) : sexp :=
  match p with
  | Pending => sym "pending"
  | Ready o => L [sym "ready"; sopt snat o]
  end.

Definition hstep_run (s : astate nat) (a : xstep) : astate nat * sexp :=
  match a with
  | XFire =>
      let s' := source_ready s in
      (s', L ([sym "fire"; L (newly (woken_flags (cons s)) (woken_flags (cons s')) 0)] ++ hcounters s'))
  | XPoll c =>
      let s0 := clear_woken c s in
      let '(s', p) := poll_next s0 c in
      (s', L ([sym "poll"; enc_poll p; L (newly (woken_flags (cons s0)) (woken_flags (cons s')) 0)] ++ hcounters s'))
  end.

Fixpoint hrun (s : astate nat) (l : list xstep) : astate nat * list sexp :=
  match l with
  | [] => (s, [])
  | a :: r => let '(s1, o) := hstep_run s a in let '(s2, os) := hrun s1 r in (s2, o :: os)
  end.

(* the fair scheduler of Cache.v (`pick`), stopping when nothing is enabled *)
Fixpoint hdrain (n : nat) (s : astate nat) : astate nat * list sexp :=
  match n with
  | O => (s, [sym "DRAIN-OVERFLOW"])
  | S n' =>
      match find_idx runnable (cons s) 0 with
      | Some c =>
          let '(s1, o) := hstep_run s (XPoll c) in
          let '(s2, os) := hdrain n' s1 in (s2, L [snat c; o] :: os)
      | None =>
          match waiting s with
          | Some _ =>
              let '(s1, o) := hstep_run s XFire in
              let '(s2, os) := hdrain n' s1 in (s2, L [sym "f"; o] :: os)
          | None => (s, [])
          end
      end
  end.

Definition enc_handle (k : consumer nat) : sexp := L [sym (if fin k then "fin" else "open"); slist snat (seen k)].

Definition run_hasync (k : nat) (script : list (sstep nat)) (sched : list xstep) : sexp :=
  let '(s1, outs) := hrun (init script k) sched in
  let '(s2, douts) := hdrain 2000 s1 in
  L [L outs; L douts; slist enc_handle (cons s2)].

Fixpoint hsync_run (c : cache nat) (h : list nat) : cache nat * list sexp :=
  match h with
  | [] => (c, [])
  | i :: r =>
      let '(c1, res) := cache_iter_next c i in
      let o := L [sym "next"; sopt snat res; snat (c_calls c1); snat (length (c_items c1))] in
      let '(c2, os) := hsync_run c1 r in (c2, o :: os)
  end.

Definition run_hsync (k : nat) (script : list (sstep nat)) (h : list nat) : sexp :=
  let '(c1, outs) := hsync_run (cache_new (src_items script) k) h in
  L [L outs; slist (fun k => slist snat (seen k)) (c_cons c1)].

Definition run_case (c : sexp) : sexp :=
  match c with
  | L [_; mode; via; L consumers; L script; L sched] =>
      let reqs := map dec_consumer consumers in
      let scr := dec_script script 0 in
      if is_sym "async" mode then run_async reqs scr (map dec_step sched)
      else if is_sym "sync" mode then run_sync reqs scr
      else if is_sym "hasync" mode then run_hasync (dec_nat via) scr (map dec_step sched)
      else if is_sym "hsync" mode then run_hsync (dec_nat via) scr (map dec_nat sched)
      else bad
  | _ => bad
  end.

Require Extraction.
Require Import ExtrOcamlBasic.
Cd "ocaml/gen".
Extraction "c17_model.ml" run_case.
Cd "../..".

(* Extract/ExtractC14.v — executable entry point of the memoizer models for the correspondence check,
   and its extraction to OCaml.

   The Section variables of the models are instantiated with the test formatter of the harness
   (harness/src/bin/memo_run.rs, props/C14_shuttle/main.rs): an instance records the language, type, args
   and call number it was constructed with; `construct` fails for args [1, ..], fails while fewer than x
   construct calls have been made for args [2, x, ..], succeeds otherwise; a callback returns its own id
   and a copy of the instance it saw.

   cases:  (seq (op ...))                         op = (get #lang) | (drop h) | (with h t #args cb) | (withk ..)
           (threads n #lang (req ...))             n real threads, each issuing the same requests; req = (t #args cb)
           (shuttle mode iters seed #lang ((req ...) ...))   schedule exploration of the given thread programs  *)
From FluentV Require Import Base.Sexp Base.Bytes Base.Outcome Memo.Memoizer Memo.Concurrent.

Definition inst := (lang * type_id * args * nat)%type.
Definition cres := (cb_id * inst)%type.

Definition construct (l : lang) (t : type_id) (a : args) (n : nat) : result inst inst :=
  match a with
  | 1%N :: _ => Err (l, t, a, n)
  | 2%N :: x :: _ => if Nat.ltb n (N.to_nat x) then Err (l, t, a, n) else Ok (l, t, a, n)
  | _ => Ok (l, t, a, n)
  end.
Definition callback (cb : cb_id) (i : inst) : cres := (cb, i).

Definition to_nat (x : sexp) : nat := match x with I z => Z.to_nat z | _ => 0 end.

Definition enc_inst (i : inst) : list sexp :=
  let '(l, t, a, n) := i in [A l; snat t; A a; snat n].
Definition enc_res (r : result cres inst) : sexp :=
  match r with
  | Ok (cb, i) => L [sym "ok"; snat cb; L (sym "inst" :: enc_inst i)]
  | Err e => L (sym "err" :: enc_inst e)
  end.
Definition enc_ok (b : bool) : sexp := if b then sym "ok" else sym "fail".
Definition enc_ev (e : cevent) : sexp :=
  L [sym "c"; A (ev_lang e); snat (ev_type e); A (ev_args e); snat (ev_n e); enc_ok (ev_ok e)].
Definition enc_mev (me : nat * cevent) : sexp :=
  let e := snd me in
  L [sym "c"; snat (fst me); A (ev_lang e); snat (ev_type e); A (ev_args e); snat (ev_n e); enc_ok (ev_ok e)].

(* ---- sequential histories *)
Definition dec_op (x : sexp) : option op :=
  match x with
  | L [t; A l] => if is_sym "get" t then Some (OpGet l) else None
  | L [t; h] => if is_sym "drop" t then Some (OpDrop (to_nat h)) else None
  | L [tg; h; t; A a; cb] => if is_sym "with" tg || is_sym "withk" tg then Some (OpWith (to_nat h) (to_nat t) a (to_nat cb)) else None
  | _ => None
  end.

Fixpoint dec_all {X} (f : sexp -> option X) (l : list sexp) : option (list X) :=
  match l with
  | [] => Some []
  | x :: r => match f x, dec_all f r with Some y, Some ys => Some (y :: ys) | _, _ => None end
  end.

Definition enc_out (o : output inst cres) : sexp :=
  match o with
  | OutMemo m => L [sym "memo"; snat m]
  | OutDrop => sym "drop"
  | OutRes r => enc_res r
  | OutDead => sym "dead"
  end.

Definition run_seq (ops : list op) : sexp :=
  let '(outs, w) := run inst inst cres construct callback (init inst) ops in
  L [sym "seq"; L (map enc_out outs); L (sym "tr" :: map enc_mev (rev (w_trace inst w)))].

(* ---- threads *)
Definition dec_req (x : sexp) : option request :=
  match x with
  | L [t; A a; cb] => Some (to_nat t, a, to_nat cb)
  | _ => None
  end.

Definition enc_thread (rs : list (request * result cres inst)) : sexp :=
  L (sym "t" :: map (fun p => enc_res (snd p)) rs).

Definition outcome (s : cstate inst inst cres) : sexp :=
  L (sym "o" :: map enc_thread (c_results inst inst cres s) ++
     [L (sym "tr" :: map enc_ev (rev (c_trace inst inst cres s)))]).

Definition explore (l : lang) (threads : list (list request)) : list sexp :=
  map (fun sched => outcome (run_schedule inst inst cres construct callback l threads sched))
      (all_schedules (length (concat threads)) (map (@length request) threads)).

(* real threads (no schedule control): the observation masks the call number, which depends on the schedule,
   and reports instead the number of construct calls and whether each key was always served by one instance *)
Definition enc_masked (r : result cres inst) : sexp :=
  match r with
  | Ok (cb, (l, t, a, _)) => L [sym "ok"; snat cb; L [sym "inst"; A l; snat t; A a]]
  | Err (l, t, a, _) => L [sym "err"; A l; snat t; A a]
  end.
Definition res_key_n (p : request * result cres inst) : option (key * nat) :=
  match snd p with Ok (_, (_, t, a, n)) => Some ((t, a), n) | Err _ => None end.
Fixpoint consistent (seen : list (key * nat)) (xs : list (request * result cres inst)) : bool :=
  match xs with
  | [] => true
  | p :: r =>
      match res_key_n p with
      | None => consistent seen r
      | Some (k, n) =>
          match find (fun q => key_eqb (fst q) k) seen with
          | Some (_, n0) => Nat.eqb n0 n && consistent seen r
          | None => consistent ((k, n) :: seen) r
          end
      end
  end.
Definition run_threads (n : nat) (l : lang) (reqs : list request) : sexp :=
  let threads := repeat reqs n in
  let sched := flat_map (fun tid => repeat tid (length reqs)) (seq 0 n) in
  let s := run_schedule inst inst cres construct callback l threads sched in
  L [sym "threads"; L [sym "constructs"; snat (c_counter inst inst cres s)];
     L [sym "same"; sbool (consistent [] (concat (c_results inst inst cres s)))];
     L (map (fun rs => L (map (fun p => enc_masked (snd p)) rs)) (c_results inst inst cres s))].

Definition run_case (c : sexp) : sexp :=
  match c with
  | L [tg; L ops] =>
      if is_sym "seq" tg then match dec_all dec_op ops with Some o => run_seq o | None => bad end else bad
  | L [tg; n; A l; L reqs] =>
      if is_sym "threads" tg then
        match dec_all dec_req reqs with Some r => run_threads (to_nat n) l r | None => bad end
      else bad
  | L [tg; mode; _; _; A l; L ths] =>
      if is_sym "shuttle" tg then
        match dec_all (fun t => match t with L rs => dec_all dec_req rs | _ => None end) ths with
        | Some threads => L [sym "shuttle"; mode; sym "ok"; I 0%Z; L (sym "outcomes" :: explore l threads)]
        | None => bad
        end
      else bad
  | _ => bad
  end.

Require Extraction.
Require Import ExtrOcamlBasic.
Cd "ocaml/gen".
Extraction "c14_model.ml" run_case.
Cd "../..".

(* Extract/ExtractSyntax.v — entry point of the syntax models (parser; later serializer) for the
   correspondence check.  Result shapes are those of harness/src/bin/syn_run.rs. *)
From FluentV Require Import Base.Sexp Base.Bytes Base.Outcome Base.Utf8 Syntax.Ast Syntax.ParserModel Syntax.SerializerModel Syntax.Render Syntax.Coverage.

Definition enc_kind (k : ekind) : list sexp :=
  match k with
  | ExpectedToken c => [sym "ExpectedToken"; sN c]
  | ExpectedCharRange r => [sym "ExpectedCharRange"; A r]
  | ExpectedMessageField i => [sym "ExpectedMessageField"; A i]
  | ExpectedTermField i => [sym "ExpectedTermField"; A i]
  | ForbiddenCallee => [sym "ForbiddenCallee"]
  | MissingDefaultVariant => [sym "MissingDefaultVariant"]
  | MissingValue => [sym "MissingValue"]
  | MultipleDefaultVariants => [sym "MultipleDefaultVariants"]
  | MessageReferenceAsSelector => [sym "MessageReferenceAsSelector"]
  | TermReferenceAsSelector => [sym "TermReferenceAsSelector"]
  | MessageAttributeAsSelector => [sym "MessageAttributeAsSelector"]
  | TermAttributeAsPlaceable => [sym "TermAttributeAsPlaceable"]
  | UnterminatedStringLiteral => [sym "UnterminatedStringLiteral"]
  | PositionalArgumentFollowsNamed => [sym "PositionalArgumentFollowsNamed"]
  | DuplicatedNamedArgument s => [sym "DuplicatedNamedArgument"; A s]
  | UnknownEscapeSequence s => [sym "UnknownEscapeSequence"; A s]
  | InvalidUnicodeEscapeSequence s => [sym "InvalidUnicodeEscapeSequence"; A s]
  | UnbalancedClosingBrace => [sym "UnbalancedClosingBrace"]
  | ExpectedInlineExpression => [sym "ExpectedInlineExpression"]
  | ExpectedSimpleExpressionAsSelector => [sym "ExpectedSimpleExpressionAsSelector"]
  | ExpectedLiteral => [sym "ExpectedLiteral"]
  end.

Definition enc_error (e : perror) : sexp :=
  L (enc_kind (kind e) ++
     [snat (pos_start e); snat (pos_end e);
      sopt (fun ab : nat * nat => L [snat (fst ab); snat (snd ab)]) (eslice e)]).

Definition enc_parse_result (o : outcome (resource * list perror)) : sexp :=
  match o with
  | Done (body, errs) => L [sym "ok"; enc_resource body; L (map enc_error errs)]
  | Panic t => L [sym "PANIC"; sym t]
  | OutOfFuel => sym "OUT-OF-FUEL"
  end.

Definition run_text_case (t : sexp) (text : bytes) : sexp :=
  if is_sym "parse_all" t then
    let a := enc_parse_result (parse text) in
    let b := enc_parse_result (parse_runtime text) in
    let tn := match parse_runtime text with
              | Done (body, errs) =>
                  L [sym "try_new"; (match errs with [] => sym "ok" | _ => sym "err" end);
                     snat (length body); snat (length errs); sym "true"]
              | _ => sym "PANIC"
              end in
    L [sym "ok"; a; a; b; b; tn; L [sym "same"; sym "true"; sym "true"]]
  else if is_sym "parse" t || is_sym "parse_owned" t then enc_parse_result (parse text)
  else if is_sym "parse_runtime" t || is_sym "parse_runtime_owned" t then enc_parse_result (parse_runtime text)
  else bad.

Definition run_case (c : sexp) : sexp :=
  match c with
  | L [t; A text] => run_text_case t text
  | L [t; A text; L _] => run_text_case t text          (* third field: expected tree, for the oracle only *)
  | L [t; A text; L _; A _] => run_text_case t text     (* reference fixture: expected tree and file name *)
  | L [t; L cs; x] =>
      (* (render (choice ...) <resource>) -> (ok #text wf?) *)
      if is_sym "render" t then
        match dec_resource x with
        | Some r =>
            let nat_of (y : sexp) := match y with I z => Z.to_nat z | _ => O end in
            L [sym "ok"; A (render (map nat_of cs) r); sbool (wf_resource r)]
        | None => bad
        end
      else bad
  | L [t; flag; x] =>
      if is_sym "serialize" t then
        match dec_resource x with
        | Some r => soutcome A (serialize_with_options (is_sym "true" flag) r)
        | None => bad
        end
      else if is_sym "roundtrip" t then
        match x with
        | A text =>
            let wj := is_sym "true" flag in
            match parse text with
            | Done (t1, _) =>
                match serialize_with_options wj t1 with
                | Done s1 =>
                    match parse s1 with
                    | Done (t2, _) =>
                        match serialize_with_options wj t2 with
                        | Done s2 => L [sym "ok"; enc_resource t1; A s1; enc_resource t2; A s2; L [sym "covered"; sbool (c04_covered t1)]]
                        | Panic m => L [sym "PANIC"; sym m]
                        | OutOfFuel => sym "OUT-OF-FUEL"
                        end
                    | Panic m => L [sym "PANIC"; sym m]
                    | OutOfFuel => sym "OUT-OF-FUEL"
                    end
                | Panic m => L [sym "PANIC"; sym m]
                | OutOfFuel => sym "OUT-OF-FUEL"
                end
            | Panic m => L [sym "PANIC"; sym m]
            | OutOfFuel => sym "OUT-OF-FUEL"
            end
        | _ => bad
        end
      else bad
  | L [t; A pre; A e; A d; A post; _; _] =>
      if is_sym "damage" t then
        let r x := [enc_parse_result (parse x); enc_parse_result (parse_runtime x)] in
        L (sym "ok" :: r (pre ++ e ++ post) ++ r (pre ++ d ++ post) ++ r pre ++ r post)
      else bad
  | _ => bad
  end.

Require Extraction.
Require Import ExtrOcamlBasic.
Cd "ocaml/gen".
Extraction "syn_model.ml" run_case.
Cd "../..".

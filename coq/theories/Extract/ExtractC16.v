(* Extract/ExtractC16.v — executable entry point of the fallback-walk model (Fallback/Walk.v) for the
   correspondence check, and its extraction to OCaml.

   case   := (c16 <mode> (<bundle> ...) (<req> ...))            mode = sync | async (how Bundles is built)
   bundle := (<ok | (#tok ...)> (#locale ...) (<msg> ...))       (#tok ...) = Err((bundle, errors)) with these errors
   msg    := (#id <none | pat> ((#attr pat) ...))
   pat    := (<elem> ...)        elem := (t #text) | (v #name)          `text{ $name }`
   req    := (value <api> #id <args>) | (values <api> (<key> ...)) | (messages <api> (<key> ...))
   key    := (#id <args>)        args := none | ((#name #string) ...)   api := sync | async
   result := (<res> ...)   res := (ok <payload> (<err> ...) <pulled>) | (err SyncRequestInAsyncMode (<err> ...) <pulled>)
   A panic anywhere gives (PANIC tag).

   The Section variable `format_pattern` is instantiated by a formatter for the two element kinds the
   cases use (text, variable reference): a missing variable formats as `{$name}` and reports a
   reference error — enough to make the answer depend on the bundle, the pattern and the arguments. *)
From FluentV Require Import Base.Sexp Base.Bytes Base.Outcome Fallback.Walk.

Inductive elem := ET (text : bytes) | EV (name : bytes).
Definition pat := list elem.
Definition fargs := list (bytes * bytes).
Inductive rerr := RefVar (name : bytes).

(* FluentArgs::get: the last write of a name wins (C11) *)
Fixpoint args_get (a : fargs) (name : bytes) : option bytes :=
  match a with
  | [] => None
  | (k, v) :: r =>
      match args_get r name with
      | Some v' => Some v'
      | None => if bytes_eqb k name then Some v else None
      end
  end.

Fixpoint fmt_elems (p : pat) (a : option fargs) : bytes * list rerr :=
  match p with
  | [] => ([], [])
  | ET t :: r => let '(s, e) := fmt_elems r a in (t ++ s, e)
  | EV x :: r =>
      let '(s, e) := fmt_elems r a in
      match match a with Some a => args_get a x | None => None end with
      | Some v => (v ++ s, e)
      | None => (bytes_of_string "{$" ++ x ++ bytes_of_string "}" ++ s, RefVar x :: e)
      end
  end.

Definition fmt (b : bundle pat) (p : pat) (a : option fargs) : bytes * list rerr := fmt_elems p a.

Notation bres := (@bundle_result pat bytes).
Notation err := (@lerr rerr bytes).

(* ---- decoding ---- *)
Definition dec_atom (x : sexp) : bytes := match x with A b => b | _ => [] end.

Definition dec_elem (x : sexp) : elem :=
  match x with
  | L [t; A b] => if is_sym "v" t then EV b else ET b
  | _ => ET []
  end.
Definition dec_pat (x : sexp) : pat := match x with L l => map dec_elem l | _ => [] end.
Definition dec_attr (x : sexp) : bytes * pat :=
  match x with L [A n; p] => (n, dec_pat p) | _ => ([], []) end.
Definition dec_msg (x : sexp) : bytes * message pat :=
  match x with
  | L [A id; v; L attrs] =>
      (id, mkMessage pat (match v with L _ => Some (dec_pat v) | _ => None end) (map dec_attr attrs))
  | _ => ([], mkMessage pat None [])
  end.

(* FluentBundle::get_message: the first definition of an id is the one kept by add_resource *)
Fixpoint find_msg (ms : list (bytes * message pat)) (id : bytes) : option (message pat) :=
  match ms with
  | [] => None
  | (i, m) :: r => if bytes_eqb i id then Some m else find_msg r id
  end.

Definition dec_bundle (x : sexp) : bres :=
  match x with
  | L [st; L locs; L msgs] =>
      let b := mkBundle pat (map dec_atom locs) (find_msg (map dec_msg msgs)) in
      match st with
      | L toks => BBroken b (map dec_atom toks)
      | _ => BOk b
      end
  | _ => BOk (mkBundle pat [] (fun _ => None))
  end.

Definition dec_arg (x : sexp) : bytes * bytes :=
  match x with L [A n; A v] => (n, v) | _ => ([], []) end.
Definition dec_args (x : sexp) : option fargs :=
  match x with L l => Some (map dec_arg l) | _ => None end.
Definition dec_key (x : sexp) : key fargs :=
  match x with L [A id; a] => mkKey fargs id (dec_args a) | _ => mkKey fargs [] None end.

(* ---- encoding ---- *)
Definition enc_rerr (e : rerr) : sexp := match e with RefVar n => L [sym "ref-var"; A n] end.
Definition enc_err (e : err) : sexp :=
  match e with
  | EBundle t => L [sym "Bundle"; A t]
  | EResolver id l es => L [sym "Resolver"; A id; A l; slist enc_rerr es]
  | EMissingMessage id l => L [sym "MissingMessage"; A id; sopt A l]
  | EMissingValue id l => L [sym "MissingValue"; A id; sopt A l]
  | ESyncRequestInAsyncMode => sym "SyncRequestInAsyncMode"
  end.
Definition enc_value (v : option bytes) : sexp := sopt A v.
Definition enc_attr (a : bytes * bytes) : sexp := L [A (fst a); A (snd a)].
Definition enc_message (m : option l10n_message) : sexp :=
  sopt (fun m => L [sym "msg"; enc_value (l_value m); slist enc_attr (l_attributes m)]) m.

Definition enc_sync {T} (f : T -> sexp) (r : sync_result rerr bytes T) (es : list err) (pulled : nat) : sexp :=
  match r with
  | SOk x => L [sym "ok"; f x; slist enc_err es; snat pulled]
  | SErr e => L [sym "err"; enc_err e; slist enc_err es; snat pulled]
  end.

(* one request against the instance; `pulled` = items the generator has yielded so far *)
Definition run_req (bs : bundles_inner pat bytes) (pulled : nat) (x : sexp) : outcome (sexp * nat) :=
  match x with
  | L [t; api; a; b] =>
      if is_sym "value" t then
        let id := dec_atom a in
        let args := dec_args b in
        if is_sym "sync" api then
          let* (r, es, n) := format_value_sync pat fargs rerr bytes fmt bs id args [] in
          let p := pulled_after pulled n in Done (enc_sync enc_value r es p, p)
        else
          let* (r, es, n) := format_value pat fargs rerr bytes fmt bs id args [] in
          let p := pulled_after pulled n in Done (enc_sync enc_value (SOk r) es p, p)
      else Done (bad, pulled)
  | L [t; api; L ks] =>
      let keys := map dec_key ks in
      if is_sym "values" t then
        if is_sym "sync" api then
          let* (r, es, n) := format_values_sync pat fargs rerr bytes fmt bs keys [] in
          let p := pulled_after pulled n in Done (enc_sync (slist enc_value) r es p, p)
        else
          let* (r, es, n) := format_values pat fargs rerr bytes fmt bs keys [] in
          let p := pulled_after pulled n in Done (enc_sync (slist enc_value) (SOk r) es p, p)
      else if is_sym "messages" t then
        if is_sym "sync" api then
          let* (r, es, n) := format_messages_sync pat fargs rerr bytes fmt bs keys [] in
          let p := pulled_after pulled n in Done (enc_sync (slist enc_message) r es p, p)
        else
          let* (r, es, n) := format_messages pat fargs rerr bytes fmt bs keys [] in
          let p := pulled_after pulled n in Done (enc_sync (slist enc_message) (SOk r) es p, p)
      else Done (bad, pulled)
  | _ => Done (bad, pulled)
  end.

Fixpoint run_reqs (bs : bundles_inner pat bytes) (pulled : nat) (reqs : list sexp) : outcome (list sexp) :=
  match reqs with
  | [] => Done []
  | x :: r =>
      let* (o, p) := run_req bs pulled x in
      let* rest := run_reqs bs p r in
      Done (o :: rest)
  end.

Definition run_case (c : sexp) : sexp :=
  match c with
  | L [_; mode; L bundles; L reqs] =>
      let seq := map dec_bundle bundles in
      let bs := if is_sym "async" mode then Stream pat bytes seq else Iter pat bytes seq in
      match run_reqs bs 0 reqs with
      | Done l => L l
      | Panic t => L [sym "PANIC"; sym t]
      | OutOfFuel => sym "OUT-OF-FUEL"
      end
  | _ => bad
  end.

Require Extraction.
Require Import ExtrOcamlBasic.
Cd "ocaml/gen".
Extraction "c16_model.ml" run_case.
Cd "../..".

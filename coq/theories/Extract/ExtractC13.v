(* Extract/ExtractC13.v — executable entry point of the unescape model for the correspondence
   check, and its extraction to OCaml.
   case:   (unescape #prefix #text)      prefix = what the writer already holds
   result: (ok borrowed|owned #string #writer none)
   (the last field is filled only by the Rust side: the same literal formatted through a bundle) *)
From FluentV Require Import Base.Sexp Base.Bytes Base.Outcome Base.Utf8 Syntax.UnescapeModel.

Definition enc_cow (c : cow) : list sexp :=
  match c with
  | Borrowed s => [sym "borrowed"; A s]
  | Owned s => [sym "owned"; A s]
  end.

Definition run_case (c : sexp) : sexp :=
  match c with
  | L [t; A pre; A text] =>
      if is_sym "unescape" t then
        match unescape_unicode_to_string text, unescape_unicode pre text with
        | Done cw, Done w => L (sym "ok" :: enc_cow cw ++ [A w; sym "none"])
        | Panic m, _ | _, Panic m => L [sym "PANIC"; sym m]
        | _, _ => sym "OUT-OF-FUEL"
        end
      else bad
  | _ => bad
  end.

Require Extraction.
Require Import ExtrOcamlBasic.
Cd "ocaml/gen".
Extraction "c13_model.ml" run_case.
Cd "../..".

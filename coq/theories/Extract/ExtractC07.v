(* Extract/ExtractC07.v — executable entry point of the resolver model for C07 (`c07_model.ml`).

   case forms
     (fmt …)   exactly as Extract/ExtractC06.v (mirror of harness/src/bin/bundle_run.rs): delegated;
     (fix <cfg> (<res> ...) <entry> <args> ...)    the repository's resolver fixtures, with the function table
                                                   and the transform of fluent-bundle/tests/resolver_fixtures.rs
                                                   (mirror of harness/src/bin/c07_run.rs);
     (has <cfg> (<res> ...) #id)                   is there a message with this id.
   result of fix   (ok missing) | (ok ((fmt #text (err ...)) (wrt #text (err ...)) (calls (c #id (value ...) ((#k value) ...)) ...)))
   result of has   (has true|false)                                                                          *)
From FluentV Require Import Base.Sexp Base.Bytes Base.Outcome Syntax.Ast Syntax.UnescapeModel
  Bundle.Args Bundle.Number Bundle.Plural Bundle.ResolverAst Bundle.ResolverModel Extract.ExtractC06.

Local Open Scope N_scope.

(* fluent-bundle/tests/resolver_fixtures.rs create_bundle: CONCAT, SUM, IDENTITY, NUMBER (see c07_run.rs
   for the two places where the fixture closures would panic and both sides answer Error instead) *)
Definition concat_fixture_piece (v : fvalue) : bytes :=
  match v with
  | VString s => s
  | VNumber n => fval_to_string (n_value n)
  | _ => []
  end.

Definition nat_value (v : fvalue) : option N :=
  match v with
  | VNumber (FNum (FDec false i []) _) => if N.ltb (digits_val i) 1000000000000000 then Some (digits_val i) else None
  | _ => None
  end.

Fixpoint sum_fixture (l : list fvalue) (acc : N) : option N :=
  match l with
  | [] => Some acc
  | v :: r => match nat_value v with Some n => sum_fixture r (acc + n) | None => None end
  end.

Definition fixture_function (name : bytes) (pos : list fvalue) (named : fargs) : fvalue :=
  if str_is "CONCAT" name then VString (flat_map concat_fixture_piece pos)
  else if str_is "SUM" name then
    match sum_fixture pos 0 with
    | Some n => VNumber (FNum (FDec false (N_digits 40 n []) []) default_options)
    | None => VError
    end
  else if str_is "IDENTITY" name then match pos with v :: _ => v | [] => VError end
  else if str_is "NUMBER" name then match pos with v :: _ => v | [] => VError end
  else VError.

(* transform_example: s.replace('a', "A") *)
Definition transform_fixture (x : sexp) : option (bytes -> bytes) :=
  if is_sym "example" x then Some (map (fun c => if N.eqb c 97 then 65 else c)) else None.

(* functions are registered BEFORE the resources (create_bundle), all as user functions *)
Definition add_fixture_function (m : list (bytes * bentry)) (name : bytes) : list (bytes * bentry) :=
  add_entry m name (EFunction (FnUser name)).

Definition fixture_entries (funcs ress : sexp) : option (list (bytes * bentry)) :=
  match ress with
  | L rs =>
      match opt_all (map dec_res rs) with
      | Some resources => Some (fold_left add_ast_entry (concat resources) (fold_left add_fixture_function (atoms funcs) []))
      | None => None
      end
  | _ => None
  end.

Definition pick_message_pattern (b : bundle) (x : sexp) : option pattern :=
  match x with
  | L [_; A id; at_] =>
      match get_entry_message b id with
      | Some (v, attrs) => match at_ with L [_; A a] => find_attribute attrs a | _ => v end
      | None => None
      end
  | _ => None
  end.

Definition run_fix (c : sexp) : sexp :=
  match c with
  | L (_ :: L [_; iso; tr; _; funcs; L locales; _] :: ress :: entry :: args :: _) =>
      match fixture_entries funcs ress with
      | None => bad
      | Some m =>
          let b := Bundle m (is_sym "true" iso) in
          let first_locale := match locales with A l :: _ => l | _ => [] end in
          match pick_message_pattern b entry with
          | None => L [sym "ok"; sym "missing"]
          | Some p =>
              let fuel := fuel_of b p in
              let fmt := format_pattern true fixture_function (transform_fixture tr) None
                           (rules_for_locale first_locale) custom_print unescape_total unescape_total_s f64_from_str_exact
                           b (dec_args args) fuel (pick_top b entry) p [] in
              let wrt := write_pattern true fixture_function (transform_fixture tr) None
                           (rules_for_locale first_locale) custom_print unescape_total unescape_total_s f64_from_str_exact
                           b (dec_args args) fuel (pick_top b entry) p [] in
              soutcome (fun x => x)
                (let* (ftext, fsc) := fmt in
                 let* (wtoks, wsc) := wrt in
                 Done (L [ L (sym "fmt" :: enc_result ftext fsc);
                           L (sym "wrt" :: enc_result (flatten wtoks) wsc);
                           L (sym "calls" :: map enc_call (sc_calls fsc)) ]))
          end
      end
  | _ => bad
  end.

Definition run_has (c : sexp) : sexp :=
  match c with
  | L (_ :: L [_; _; _; _; funcs; _; _] :: ress :: A id :: _) =>
      match fixture_entries funcs ress with
      | None => bad
      | Some m =>
          L [sym "has"; sbool (match get_entry_message (Bundle m false) id with Some _ => true | None => false end)]
      end
  | _ => bad
  end.

Definition run_case (c : sexp) : sexp :=
  match c with
  | L (t :: _) =>
      if is_sym "fix" t then run_fix c
      else if is_sym "has" t then run_has c
      else ExtractC06.run_case c
  | _ => bad
  end.

Require Extraction.
Require Import ExtrOcamlBasic.
(* both entry points are called run_case; the generic driver calls `run_case`, which must be the one of THIS
   file: the delegated one is inlined at its single use (no user-supplied OCaml is involved) *)
Extraction Inline ExtractC06.run_case.
Cd "ocaml/gen".
Extraction "c07_model.ml" run_case.
Cd "../..".

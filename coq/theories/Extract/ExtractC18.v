(* Extract/ExtractC18.v — executable entry point of the Localization model (Fallback/Localization.v) for
   the correspondence check, and its extraction to OCaml.

   case   := (c18 <sync|async> (<locale> ...) (<resid> ...) (<op> ...))       resid := (#value r|o)
   op     := (add <resid>) | (adds (<resid> ...)) | (rm <resid>) | (rms (<resid> ...)) | (set_async)
           | (on_change) | (locales (<locale> ...)) | (prefetch) | (prefetch_sync) | (prefetch_async)
           | (bundles) | (use <i>)
   (prefetch) calls the variant that fits is_sync(); (bundles) is a request: loc.bundles(), the Rc is kept;
   (use i) uses the i-th distinct bundle set obtained so far (a request in flight across later changes).
   result := (<r> ... (calls <call> ...) (prefetches (<set id> sync|async) ...))
   r      := u | (len n) | (set <idx> <sync-API answer> <async-API answer>) | none
             idx = position of this set among the distinct sets obtained so far (Rc identity)
   call   := (iter|stream (<locale> ...) (<resid> ...))      resource ids sorted by value
   The generator of the Rust side yields, per requested locale, a bundle whose message `info` is
   "c" followed by <call index> times "i"; the answers are format_value_sync/format_value of `info`.  *)
From FluentV Require Import Base.Sexp Base.Bytes Base.Outcome Fallback.Localization.

Definition B := gen_call.
Definition gen (stream : bool) (ls : list locale) (rs : res_set) : B := (stream, ls, rs).

Notation world := (world B).
Notation bundles := (bundles B).

Definition dec_atom (x : sexp) : bytes := match x with A b => b | _ => [] end.
Definition dec_res (x : sexp) : resource_id :=
  match x with L [A v; t] => mkRes v (negb (is_sym "o" t)) | _ => mkRes [] true end.
Definition dec_list {X} (f : sexp -> X) (x : sexp) : list X := match x with L l => map f l | _ => [] end.

Inductive xop := XOp (o : op) | XPrefetch | XUse (i : nat) | XBad.

Definition dec_op (x : sexp) : xop :=
  match x with
  | L [t] =>
      if is_sym "set_async" t then XOp SetAsync
      else if is_sym "on_change" t then XOp OnChange
      else if is_sym "prefetch" t then XPrefetch
      else if is_sym "prefetch_sync" t then XOp PrefetchSync
      else if is_sym "prefetch_async" t then XOp PrefetchAsync
      else if is_sym "bundles" t then XOp GetBundles
      else XBad
  | L [t; a] =>
      if is_sym "add" t then XOp (AddResourceId (dec_res a))
      else if is_sym "adds" t then XOp (AddResourceIds (dec_list dec_res a))
      else if is_sym "rm" t then XOp (RemoveResourceId (dec_res a))
      else if is_sym "rms" t then XOp (RemoveResourceIds (dec_list dec_res a))
      else if is_sym "locales" t then XOp (SetLocales (dec_list dec_atom a))
      else if is_sym "use" t then XUse (match a with I z => Z.to_nat z | _ => 0 end)
      else XBad
  | _ => XBad
  end.

(* ---- encoding ---- *)
Fixpoint insert_sorted (r : resource_id) (l : list resource_id) : list resource_id :=
  match l with
  | [] => [r]
  | x :: l' =>
      match bytes_compare (r_value r) (r_value x) with
      | Gt => x :: insert_sorted r l'
      | _ => r :: l
      end
  end.
Definition sort_res (l : list resource_id) : list resource_id := fold_right insert_sorted [] l.

Definition enc_res (r : resource_id) : sexp := L [A (r_value r); if r_required r then sym "r" else sym "o"].
Definition enc_call (c : gen_call) : sexp :=
  let '(stream, ls, rs) := c in
  L [if stream then sym "stream" else sym "iter"; slist A ls; slist enc_res (sort_res rs)].

Definition info_text (id : nat) : bytes := bytes_of_string "c" ++ repeat 105%N id.

(* idx = position among the distinct sets obtained so far (Rc::ptr_eq on the Rust side) *)
Definition enc_set (idx : nat) (b : bundles) : sexp :=
  let '(_, ls, _) := bs_inner B b in
  let ans := match ls with [] => sym "none" | _ => L [sym "some"; A (info_text (bs_id B b))] end in
  L [sym "set"; snat idx;
     if bs_sync B b then L [sym "ok"; ans] else L [sym "err"; sym "SyncRequestInAsyncMode"];
     ans].

Fixpoint position (held : list bundles) (b : bundles) : nat :=
  match held with
  | [] => 0
  | h :: held' => if Nat.eqb (bs_id B h) (bs_id B b) then 0 else S (position held' b)
  end.

Definition enc_result (held : list bundles) (r : op_result B) : sexp :=
  match r with
  | RUnit _ => sym "u"
  | RLen _ n => L [sym "len"; snat n]
  | RBundles _ b => enc_set (position held b) b
  end.

Definition hold (held : list bundles) (b : bundles) : list bundles :=
  if existsb (fun h => Nat.eqb (bs_id B h) (bs_id B b)) held then held else held ++ [b].

Fixpoint run_ops (w : world) (held : list bundles) (ops : list xop) : outcome (world * list sexp) :=
  match ops with
  | [] => Done (w, [])
  | XBad :: _ => Done (w, [bad])
  | XUse i :: r =>
      let o := match nth_error held i with Some b => enc_set i b | None => sym "none" end in
      let* (w', rest) := run_ops w held r in Done (w', o :: rest)
  | XPrefetch :: r =>
      let* (w1, res) := step B gen w (if is_sync B (w_loc B w) then PrefetchSync else PrefetchAsync) in
      let* (w', rest) := run_ops w1 held r in Done (w', enc_result held res :: rest)
  | XOp o :: r =>
      let* (w1, res) := step B gen w o in
      let held := match res with RBundles _ b => hold held b | _ => held end in
      let* (w', rest) := run_ops w1 held r in Done (w', enc_result held res :: rest)
  end.

Definition run_case (c : sexp) : sexp :=
  match c with
  | L [_; mode; L locales; L ids; L ops] =>
      let w := fresh B (map dec_res ids) (negb (is_sym "async" mode)) (map dec_atom locales) in
      match run_ops w [] (map dec_op ops) with
      | Done (w', outs) =>
          L (outs ++ [L (sym "calls" :: map enc_call (w_calls B w'));
                      L (sym "prefetches" ::
                         map (fun p : nat * bool => L [snat (fst p); if snd p then sym "async" else sym "sync"]) (w_prefetches B w'))])
      | Panic t => L [sym "PANIC"; sym t]
      | OutOfFuel => sym "OUT-OF-FUEL"
      end
  | _ => bad
  end.

Require Extraction.
Require Import ExtrOcamlBasic.
Cd "ocaml/gen".
Extraction "c18_model.ml" run_case.
Cd "../..".

(* Extract/ExtractC10.v — executable entry point of the registry model for the correspondence
   check, and its extraction to OCaml.

   case   (c10 <mode> ((r #ftl-text (res entry ...)) ...) (op ...))
          op = (add i) | (addo i) | (fn #id tag) | (look #id (#attr-name ...))
          the model uses the parsed form of resource i, the Rust side its FTL text; mode only
          matters to the Rust side
   result one item per op:
          add  -> (ok) | (err (overriding message|term #id) ...)      addo -> (unit)
          fn   -> (ok) | (err (overriding function #id))
          look -> (look has (msg none|(some value attrs (get_attribute per name ...)))
                        (term none|(some #text)) (fn none|(some tag)))                          *)
From FluentV Require Import Base.Sexp Base.Bytes Base.Outcome Syntax.Ast Bundle.Registry.

Inductive cop := CAdd (i : nat) | CAddO (i : nat) | CFn (id : bytes) (tag : Z)
               | CLook (id : bytes) (names : list bytes) | CBad.

Definition dec_names (l : list sexp) : list bytes :=
  flat_map (fun x => match x with A b => [b] | _ => [] end) l.

Definition dec_cop (x : sexp) : cop :=
  match x with
  | L [t; I i] => if is_sym "add" t then CAdd (Z.to_nat i) else
                  if is_sym "addo" t then CAddO (Z.to_nat i) else CBad
  | L [t; A id; I tag] => if is_sym "fn" t then CFn id tag else CBad
  | L [t; A id; L names] => if is_sym "look" t then CLook id (dec_names names) else CBad
  | _ => CBad
  end.

Definition dec_res (x : sexp) : option resource :=
  match x with
  | L [_; _; r] => dec_resource r
  | _ => None
  end.

Definition enc_kind (k : entry_kind) : sexp :=
  match k with KMessage => sym "message" | KTerm => sym "term" | KFunction => sym "function" end.
Definition enc_error (e : fluent_error) : sexp :=
  match e with Overriding k id => L [sym "overriding"; enc_kind k; A id] end.

(* the text a pattern made of text elements formats to (terms are observed through format_pattern) *)
Definition pattern_text (p : pattern) : bytes :=
  flat_map (fun el => match el with TextElement v => v | PlaceableElement _ => [] end) (pattern_elements p).

Definition enc_look (b : bundle Z) (id : bytes) (names : list bytes) : sexp :=
  L [sym "look"; sbool (has_message Z b id);
     sopt (fun m => L [sopt enc_pattern (value m); L (map enc_attribute (attributes m));
                       L (map (fun n => sopt enc_attribute (get_attribute m n)) names)])
          (get_message Z b id);
     sopt (fun t => A (pattern_text (term_value t))) (get_entry_term Z b id);
     sopt (fun f => I f) (get_entry_function Z b id)].

Fixpoint run_ops (rs : list resource) (b : bundle Z) (ops : list cop) : list sexp :=
  match ops with
  | [] => []
  | CAdd i :: r =>
      match nth_error rs i with
      | None => [bad]
      | Some res =>
          match add_resource Z b res with
          | Done (b', Ok _) => L [sym "ok"] :: run_ops rs b' r
          | Done (b', Err errs) => L (sym "err" :: map enc_error errs) :: run_ops rs b' r
          | Panic t => [L [sym "PANIC"; sym t]]
          | OutOfFuel => [sym "OUT-OF-FUEL"]
          end
      end
  | CAddO i :: r =>
      match nth_error rs i with
      | None => [bad]
      | Some res => L [sym "unit"] :: run_ops rs (add_resource_overriding Z b res) r
      end
  | CFn id tag :: r =>
      match add_function Z b id tag with
      | (b', Ok _) => L [sym "ok"] :: run_ops rs b' r
      | (b', Err e) => L [sym "err"; enc_error e] :: run_ops rs b' r
      end
  | CLook id names :: r => enc_look b id names :: run_ops rs b r
  | CBad :: _ => [bad]
  end.

Definition run_case (c : sexp) : sexp :=
  match c with
  | L [_; _; L rs; L ops] =>
      match opt_all (map dec_res rs) with
      | Some rs' => L (run_ops rs' (new Z) (map dec_cop ops))
      | None => bad
      end
  | _ => bad
  end.

Require Extraction.
Require Import ExtrOcamlBasic.
Cd "ocaml/gen".
Extraction "c10_model.ml" run_case.
Cd "../..".

(* Extract/ExtractC15.v — executable entry point of the concurrent-bundle model (Bundle/ConcurrentBundle.v) for the
   correspondence check of C15, mirror of harness/src/bin/concurrent_run.rs.  The decoding of bundles, values and errors and the
   fixed test configuration (functions, transforms, formatters, custom-type printer, unescape, float parser, CLDR rules) are
   those of Extract/ExtractC06.v (imported, not copied).

   case   (conc <cfg> (<res> ...) (threads (th <rq> ...) ...) (scheds (s tid ...) ...) [(dfs <fuel>)])
          (shuttle <mode> <iters> <seed> <cfg> (<res> ...) (threads (th <rq> ...) ...))
     cfg, res      as in ExtractC06.v (the flavour field is ignored: the bundle is built with new_concurrent)
     rq            (rq <entry> <args>)     entry, args as in ExtractC06.v
     scheds        schedules to run, each a list of thread ids (any length; a schedule that ends before every thread has
                   finished is completed by running thread 0, 1, ... to their end in turn); besides these the model always runs
                   "thread 0 to its end, then thread 1, ...", the reverse of that, and round-robin
     (dfs fuel)    additionally EVERY complete schedule, by depth-first search bounded by fuel steps (tiny cases only)
   result (ok (threads (t <res> ...) ...))           every schedule run gave these results
          (SCHEDULE-DEPENDENT (threads ...) (threads ...))   two schedules disagreed: the model itself refutes C15 (never seen)
          (shuttle <mode> ok (threads ...))
     res    (r #text (err ...)) | missing | (panic)                                                        *)
From FluentV Require Import Base.Sexp Base.Bytes Base.Outcome Syntax.Ast Syntax.UnescapeModel
  Bundle.Args Bundle.Number Bundle.Plural Bundle.ResolverAst Bundle.ResolverModel Bundle.ConcurrentBundle
  Extract.ExtractC06.
From FluentV Require Memo.Memoizer.

Local Open Scope N_scope.

(* what the test FluentType of the harness prints through the NON-threadsafe method (a concurrent bundle must never show it) *)
Definition custom_print_nts (p : bytes) : bytes := bytes_of_string "<<nts:" ++ p ++ [62; 62].

(* types/plural.rs PluralRules::construct for the test locales (Bundle/Plural.v); never fails *)
Definition construct_rules (l : Memoizer.lang) (ty : ntype) : Memoizer.result rules_fn unit :=
  Memoizer.Ok (rules_for_locale l ty).

Section Run.
Variable tr : sexp.
Variable fm : sexp.
Variable b : bundle.
Variable lang : bytes.

Definition step := sched_step true test_function (transform_of tr) (formatter_of fm) custom_print_nts custom_print
                     unescape_total unescape_total_s f64_from_str_exact unit construct_rules b.
Definition rq_proc := request_proc true test_function (transform_of tr) (formatter_of fm) custom_print_nts custom_print
                        unescape_total unescape_total_s f64_from_str_exact b.

(* run a call to its end without letting anybody else in (structural in the process; = scheduling its thread again and again) *)
Fixpoint finish_proc (m : bmemo) (p : proc (bytes * scope)) : bmemo * outcome (bytes * scope) :=
  match p with
  | PRet r => (m, r)
  | PAsk ty num cat k =>
      let '(m', ans) := memo_step unit construct_rules m ty num cat in
      match ans with
      | Done r => finish_proc m' (k r)
      | Panic t => (m', Panic t)
      | OutOfFuel => (m', OutOfFuel)
      end
  end.

Fixpoint finish_todo (m : bmemo) (todo : list frequest) (acc : list (frequest * outcome (bytes * scope)))
  : bmemo * list (frequest * outcome (bytes * scope)) :=
  match todo with
  | [] => (m, acc)
  | rq :: rest => let '(m', r) := finish_proc m (rq_proc rq) in finish_todo m' rest (acc ++ [(rq, r)])
  end.

Definition finish_thread (m : bmemo) (th : thread) : bmemo * thread :=
  let '(m1, done1) :=
    match t_cur th with
    | Some (rq, p) => let '(m', r) := finish_proc m p in (m', t_done th ++ [(rq, r)])
    | None => (m, t_done th)
    end in
  let '(m2, done2) := finish_todo m1 (t_todo th) done1 in
  (m2, Thread None [] done2).

(* thread 0 to its end, then thread 1, ... (order = the given list of thread ids) *)
Definition complete_in_order (order : list nat) (s : cstate) : cstate :=
  fold_left (fun s tid =>
               match nth_error (s_threads s) tid with
               | Some th => let '(m', th') := finish_thread (s_memo s) th in
                            CState m' (Memoizer.set_nth tid th' (s_threads s))
               | None => s
               end) order s.

Definition run_sched (programs : list (list frequest)) (sched : list nat) : list (list (frequest * outcome (bytes * scope))) :=
  let s := fold_left step sched (c_init lang programs) in
  results_of (complete_in_order (seq 0 (length programs)) s).

(* round-robin for `rounds` rounds, then completion *)
Definition round_robin (n rounds : nat) : list nat := concat (repeat (seq 0 n) rounds).

Definition explore_all (fuel : nat) (programs : list (list frequest)) :=
  explore true test_function (transform_of tr) (formatter_of fm) custom_print_nts custom_print
    unescape_total unescape_total_s f64_from_str_exact unit construct_rules b fuel (c_init lang programs).
End Run.

(* ---------- encoding ---------- *)
Definition enc_res (r : outcome (bytes * scope)) : sexp :=
  match r with
  | Done (text, sc) => L (sym "r" :: enc_result text sc)
  | _ => L [sym "panic"]
  end.

(* put `missing` back where a request named an entry the bundle does not have *)
Fixpoint weave (rqs : list (option frequest)) (rs : list (frequest * outcome (bytes * scope))) : list sexp :=
  match rqs with
  | [] => []
  | None :: rest => sym "missing" :: weave rest rs
  | Some _ :: rest =>
      match rs with
      | r :: rs' => enc_res (snd r) :: weave rest rs'
      | [] => sym "not-run" :: weave rest []
      end
  end.

Definition enc_threads (rqss : list (list (option frequest))) (rss : list (list (frequest * outcome (bytes * scope)))) : sexp :=
  L (sym "threads" :: map (fun p => L (sym "t" :: weave (fst p) (snd p))) (combine rqss rss)).

Definition to_nat (x : sexp) : nat := match x with I z => Z.to_nat z | _ => 0%nat end.

Definition dec_sched (x : sexp) : list nat :=
  match x with L (_ :: tids) => map to_nat tids | _ => [] end.

Definition flatten_opt {X} (l : list (option X)) : list X :=
  flat_map (fun o => match o with Some x => [x] | None => [] end) l.

Definition run_threads (cfg : sexp) (ress : list sexp) (threads : sexp) (extra : list sexp) : sexp :=
  match cfg with
  | L [_; iso; tr; fm; funcs; L locales; _] =>
      match opt_all (map dec_res ress) with
      | None => bad
      | Some resources =>
          let all_entries := concat resources in
          let m := fold_left add_function (atoms funcs) (fold_left add_ast_entry all_entries []) in
          let b := Bundle m (is_sym "true" iso) in
          let lang := match locales with A l :: _ => l | _ => [] end in
          let dec_rq (x : sexp) : option frequest :=
            match x with
            | L [_; entry; args] =>
                match pick_pattern b all_entries entry with
                | Some p => Some (FReq (ExtractC06.dec_args args) (pick_top b entry) p)
                | None => None
                end
            | _ => None
            end in
          let rqss : list (list (option frequest)) :=
            match threads with
            | L (_ :: ths) => map (fun t => match t with L (_ :: rqs) => map dec_rq rqs | _ => [] end) ths
            | _ => []
            end in
          let programs := map flatten_opt rqss in
          let n := length programs in
          let given := flat_map (fun x => match x with
                                          | L (t :: ss) => if is_sym "scheds" t then map dec_sched ss else []
                                          | _ => []
                                          end) extra in
          let scheds := [[]; round_robin n 3; round_robin n 40] ++ given in
          let runs := map (run_sched tr fm b lang programs) scheds in
          let rev_run :=
            results_of (complete_in_order tr fm b (rev (seq 0 n)) (c_init lang programs)) in
          let dfs_runs := flat_map (fun x => match x with
                                             | L [t; fuel] => if is_sym "dfs" t
                                                              then explore_all tr fm b lang (to_nat fuel) programs else []
                                             | _ => []
                                             end) extra in
          let dfs_missing := existsb (fun x => match x with L [t; _] => is_sym "dfs" t | _ => false end) extra
                             && match dfs_runs with [] => true | _ => false end in
          let encs := map (enc_threads rqss) (runs ++ [rev_run] ++ dfs_runs) in
          if dfs_missing then L [sym "DFS-FUEL-EXHAUSTED"]
          else
            match encs with
            | [] => bad
            | e0 :: rest =>
                match find (fun e => negb (sexp_eqb e0 e)) rest with
                | Some e1 => L [sym "SCHEDULE-DEPENDENT"; e0; e1]
                | None => e0
                end
            end
      end
  | _ => bad
  end.

Definition run_conc (c : sexp) : sexp :=
  match c with
  | L (t :: cfg :: L ress :: threads :: extra) =>
      if is_sym "conc" t then
        match run_threads cfg ress threads extra with
        | L (h :: _) as r => if is_sym "threads" h then L [sym "ok"; r] else r
        | r => r
        end
      else bad
  | _ => bad
  end.

Definition run_case (c : sexp) : sexp :=
  match c with
  | L [t; mode; _; _; cfg; L ress; threads] =>
      if is_sym "shuttle" t then
        match run_threads cfg ress threads [] with
        | L (h :: _) as r => if is_sym "threads" h then L [sym "shuttle"; mode; sym "ok"; r] else r
        | r => r
        end
      else run_conc c
  | _ => run_conc c
  end.

Require Extraction.
Require Import ExtrOcamlBasic.
Cd "ocaml/gen".
Extraction "c15_model.ml" run_case.
Cd "../..".

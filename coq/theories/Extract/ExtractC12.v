(* Extract/ExtractC12.v — executable entry point of the number / plural-selection model for the
   correspondence check of C12 (`c12_model.ml`), mirror of harness/src/bin/number_run.rs.

   case   (num <src> <print:true|false>)
            src = (lit #s) | (mnum #display-text <options>) | (conv <impl form> <model form>)
          -> (ok notnum) | (ok (num #display <options>) (str #as_string | skipped) (ops #n #i #v #w #f #t))
          (number <value> (args (#key <value>) ...))
          -> (ok <value>)        value = (num #display <options>) | (str #bytes) | none | error | (custom)
          (sel (<locale> ...) <selector> (<key> ...) <default index>)
            selector = (arg <value>) | (lit #s) | (fn <value> ((#name (s #text)|(n #lit)) ...))
            key      = (id #name) | (num #lit)
          -> (ok #text (err ...) #text-of-the-second-call)
            the message  { SELECTOR -> [key0] V0 ... }|{ SELECTOR }  formatted by the resolver model with
            rules = Bundle/Plural.v rules_for_locale (first locale); the second call starts from the
            memoizer content the first call left behind.                                             *)
From FluentV Require Import Base.Sexp Base.Bytes Base.Outcome Syntax.Ast Syntax.UnescapeModel
  Bundle.Args Bundle.Number Bundle.Plural Bundle.ResolverAst Bundle.ResolverModel.

Local Open Scope N_scope.

Definition dec_opt_N (x : sexp) : option N :=
  match x with
  | L [_; I z] => Some (Z.to_N z)
  | _ => None
  end.

Definition dec_options (x : sexp) : noptions :=
  match x with
  | L [ty; st; cu; cd; ug; mi; mf; xf; ms; xs] =>
      NOptions (if is_sym "ordinal" ty then Ordinal else Cardinal)
               (if is_sym "currency" st then StyleCurrency else if is_sym "percent" st then StylePercent else StyleDecimal)
               (match cu with L [_; A c] => Some c | _ => None end)
               (if is_sym "code" cd then CurCode else if is_sym "name" cd then CurName else CurSymbol)
               (is_sym "true" ug)
               (dec_opt_N mi) (dec_opt_N mf) (dec_opt_N xf) (dec_opt_N ms) (dec_opt_N xs)
  | _ => default_options
  end.

(* decimal text of an N (u64 values do not fit the integer atoms of the case format) *)
Fixpoint N_digits (fuel : nat) (n : N) (acc : bytes) : bytes :=
  match fuel with
  | O => acc
  | S f => let acc' := (48 + n mod 10) :: acc in
           if N.ltb n 10 then acc' else N_digits f (n / 10) acc'
  end.
Definition N_text (n : N) : sexp := A (N_digits 80 n []).

(* in results the five digit options are decimal text *)
Definition enc_options (o : noptions) : sexp :=
  L [ match o_type o with Cardinal => sym "cardinal" | Ordinal => sym "ordinal" end;
      match o_style o with StyleDecimal => sym "decimal" | StyleCurrency => sym "currency" | StylePercent => sym "percent" end;
      sopt A (o_currency o);
      match o_currency_display o with CurSymbol => sym "symbol" | CurCode => sym "code" | CurName => sym "name" end;
      sbool (o_use_grouping o);
      sopt N_text (o_minimum_integer_digits o); sopt N_text (o_minimum_fraction_digits o);
      sopt N_text (o_maximum_fraction_digits o); sopt N_text (o_minimum_significant_digits o);
      sopt N_text (o_maximum_significant_digits o) ].

(* Rust's Display text of an f64 -> fval *)
Definition fval_of_display (t : bytes) : fval :=
  if str_is "NaN" t then FNaN
  else if str_is "inf" t then FInf false
  else if str_is "-inf" t then FInf true
  else match f64_from_str_exact t with Some v => v | None => FNaN end.

Fixpoint dec_value (fuel : nat) (x : sexp) : fvalue :=
  match fuel with
  | O => VError
  | S fuel' =>
      match x with
      | L [t; y; z] =>
          if is_sym "conv" t then dec_value fuel' z
          else if is_sym "str" t then match z with A s => VString s | _ => VError end
          else if is_sym "mnum" t then
            match y with A s => VNumber (FNum (fval_of_display s) (dec_options z)) | _ => VError end
          else VError
      | L [t; A s] => if is_sym "custom" t then VCustom s else VError
      | A _ => if is_sym "none" x then VNone else VError
      | _ => VError
      end
  end.

Definition enc_value (v : fvalue) : sexp :=
  match v with
  | VString s => L [sym "str"; A s]
  | VNumber n => L [sym "num"; A (fval_to_string (n_value n)); enc_options (n_options n)]
  | VCustom _ => L [sym "custom"]
  | VNone => sym "none"
  | VError => sym "error"
  end.

Definition enc_ops (o : operands) : sexp :=
  L [sym "ops"; A (fval_to_string (op_n o)); N_text (op_i o); N_text (op_v o); N_text (op_w o);
     N_text (op_f o); N_text (op_t o)].

Definition run_num (src print : sexp) : sexp :=
  let on :=
    match src with
    | L [t; A s] => if is_sym "lit" t then fnumber_from_str f64_from_str_exact s
                    else None
    | _ => match dec_value 4 src with VNumber n => Some n | _ => None end
    end in
  match on with
  | None => L [sym "ok"; sym "notnum"]
  | Some n =>
      match fnumber_operands n with
      | Done ops =>
          L [sym "ok"; L [sym "num"; A (fval_to_string (n_value n)); enc_options (n_options n)];
             L [sym "str"; if is_sym "true" print then A (fnumber_as_string n) else sym "skipped"];
             enc_ops ops]
      | Panic t => L [sym "PANIC"; sym t]
      | OutOfFuel => sym "OUT-OF-FUEL"
      end
  end.

Definition dec_args (x : sexp) : option fargs :=
  match x with
  | L (_ :: kvs) =>
      let pairs := flat_map (fun kv => match kv with
                                       | L [A k; v] => [(k, dec_value 4 v)]
                                       | _ => []
                                       end) kvs in
      match Args.from_iter fvalue pairs with Done a => Some a | _ => None end
  | _ => None
  end.

Definition run_number (v named : sexp) : sexp :=
  match dec_args named with
  | Some a => L [sym "ok"; enc_value (NUMBER [dec_value 4 v] a)]
  | None => bad
  end.

(* ---------- select through the resolver model ---------- *)
Definition enc_ref (k : reference_kind) : sexp :=
  match k with
  | RefFunction id => L [sym "Function"; A id]
  | RefMessage id a => L [sym "Message"; A id; sopt A a]
  | RefTerm id a => L [sym "Term"; A id; sopt A a]
  | RefVariable id => L [sym "Variable"; A id]
  end.

Definition enc_error (e : resolver_error) : sexp :=
  match e with
  | Reference k => L [sym "Reference"; enc_ref k]
  | NoValue id => L [sym "NoValue"; A id]
  | MissingDefault => sym "MissingDefault"
  | Cyclic => sym "Cyclic"
  | TooManyPlaceables => sym "TooManyPlaceables"
  end.

Definition unescape_total (s : bytes) : bytes :=
  match unescape_unicode [] s with Done r => r | _ => bytes_of_string "<unescape panicked>" end.
Definition unescape_total_s (s : bytes) : bytes :=
  match unescape_unicode_to_string s with Done c => cow_bytes c | _ => bytes_of_string "<unescape panicked>" end.

Definition no_function (_ : bytes) (_ : list fvalue) (_ : fargs) : fvalue := VError.

Definition var_n : inline := VariableReference [110].

Definition dec_named (x : sexp) : list named_arg :=
  match x with
  | L l => flat_map (fun o => match o with
                              | L [A name; L [k; A v]] =>
                                  [NamedArgument name (if is_sym "s" k then StringLiteral v else NumberLiteral v)]
                              | _ => []
                              end) l
  | _ => []
  end.

(* selector expression and the caller's arguments *)
Definition dec_selector (x : sexp) : option (inline * option fargs) :=
  match x with
  | L [t; y] =>
      if is_sym "arg" t then
        match Args.from_iter fvalue [([110], dec_value 4 y)] with Done a => Some (var_n, Some a) | _ => None end
      else if is_sym "lit" t then match y with A s => Some (NumberLiteral s, None) | _ => None end
      else None
  | L [t; y; o] =>
      if is_sym "fn" t then
        match Args.from_iter fvalue [([110], dec_value 4 y)] with
        | Done a => Some (FunctionReference (bytes_of_string "NUMBER") (CallArguments [var_n] (dec_named o)), Some a)
        | _ => None
        end
      else None
  | _ => None
  end.

Definition dec_key (x : sexp) : option variant_key :=
  match x with
  | L [t; A s] => if is_sym "id" t then Some (KeyIdentifier s) else if is_sym "num" t then Some (KeyNumber s) else None
  | _ => None
  end.

Fixpoint mk_variants (keys : list variant_key) (idx : nat) (default : nat) : list variant :=
  match keys with
  | [] => []
  | k :: r =>
      Variant k (Pattern [TextElement (86 :: N_digits 20 (N.of_nat idx) [])]) (Nat.eqb idx default)
      :: mk_variants r (S idx) default
  end.

Definition run_sel (locales selector keys default : sexp) : sexp :=
  match locales, dec_selector selector, keys, default with
  | L locs, Some (sel, args), L ks, I d =>
      match opt_all (map dec_key ks) with
      | None => bad
      | Some keys' =>
          let first_locale := match locs with A l :: _ => l | _ => [] end in
          let variants := mk_variants keys' 0 (Z.to_nat d) in
          let p := Pattern [PlaceableElement (Select sel variants); TextElement [124]; PlaceableElement (Inline sel)] in
          let b := Bundle [(bytes_of_string "NUMBER", EFunction FnNUMBER); ([101], EMessage (Some p) [])] false in
          let fmt := format_pattern true no_function None None (rules_for_locale first_locale) (fun x => x)
                       unescape_total unescape_total_s f64_from_str_exact b args (fuel_of b p) (Some (PKey false [101] None)) p in
          soutcome (fun x => x)
            (let* (t1, sc1) := fmt [] in
             let* (t2, _) := fmt (sc_intls sc1) in
             Done (L [A t1; slist enc_error (sc_errors sc1); A t2]))
      end
  | _, _, _, _ => bad
  end.

Definition flatten_ok (x : sexp) : sexp :=
  match x with
  | L [o; L inner] => if is_sym "ok" o then L (o :: inner) else x
  | _ => x
  end.

Definition run_case (c : sexp) : sexp :=
  match c with
  | L [t; a; b] =>
      if is_sym "num" t then run_num a b
      else if is_sym "number" t then run_number a b
      else bad
  | L [t; locales; selector; keys; default] =>
      if is_sym "sel" t then flatten_ok (run_sel locales selector keys default) else bad
  | _ => bad
  end.

Require Extraction.
Require Import ExtrOcamlBasic.
Cd "ocaml/gen".
Extraction "c12_model.ml" run_case.
Cd "../..".

(* Base/Utf8.v — UTF-8 as Rust sees it: validity (the automaton of Unicode Table 3-7, which
   `str` guarantees), `is_char_boundary`, checked slicing `&s[a..b]`, char encode/decode.
   Definitions only; facts are in Base/Utf8Facts.v.                                           *)
From FluentV Require Export Base.Bytes Base.Outcome.

Definition in_rng (lo hi b : N) : bool := N.leb lo b && N.leb b hi.
Definition is_cont (b : N) : bool := in_rng 128 191 b.      (* 0x80..0xBF *)
Definition is_ascii (b : N) : bool := N.ltb b 128.

(* Well-formed UTF-8 byte sequences, Unicode 15 Table 3-7. *)
Fixpoint utf8_valid (bs : bytes) : bool :=
  match bs with
  | [] => true
  | b0 :: r0 =>
      if is_ascii b0 then utf8_valid r0
      else if in_rng 194 223 b0 then                                   (* C2..DF *)
        match r0 with b1 :: r1 => is_cont b1 && utf8_valid r1 | _ => false end
      else if N.eqb b0 224 then                                        (* E0 A0..BF *)
        match r0 with b1 :: b2 :: r2 => in_rng 160 191 b1 && is_cont b2 && utf8_valid r2 | _ => false end
      else if in_rng 225 236 b0 || in_rng 238 239 b0 then              (* E1..EC, EE..EF *)
        match r0 with b1 :: b2 :: r2 => is_cont b1 && is_cont b2 && utf8_valid r2 | _ => false end
      else if N.eqb b0 237 then                                        (* ED 80..9F *)
        match r0 with b1 :: b2 :: r2 => in_rng 128 159 b1 && is_cont b2 && utf8_valid r2 | _ => false end
      else if N.eqb b0 240 then                                        (* F0 90..BF *)
        match r0 with b1 :: b2 :: b3 :: r3 => in_rng 144 191 b1 && is_cont b2 && is_cont b3 && utf8_valid r3 | _ => false end
      else if in_rng 241 243 b0 then                                   (* F1..F3 *)
        match r0 with b1 :: b2 :: b3 :: r3 => is_cont b1 && is_cont b2 && is_cont b3 && utf8_valid r3 | _ => false end
      else if N.eqb b0 244 then                                        (* F4 80..8F *)
        match r0 with b1 :: b2 :: b3 :: r3 => in_rng 128 143 b1 && is_cont b2 && is_cont b3 && utf8_valid r3 | _ => false end
      else false
  end.

(* str::is_char_boundary *)
Definition is_char_boundary (bs : bytes) (i : nat) : bool :=
  if Nat.eqb i 0 then true
  else match Nat.compare i (length bs) with
       | Eq => true
       | Gt => false
       | Lt => match nth_error bs i with
               | Some b => negb (is_cont b)
               | None => false
               end
       end.

(* &s[a..b] : panics exactly when Rust's str indexing panics *)
Definition slice (bs : bytes) (a b : nat) : outcome bytes :=
  if Nat.leb a b && Nat.leb b (length bs) && is_char_boundary bs a && is_char_boundary bs b
  then Done (firstn (b - a) (skipn a bs))
  else Panic "byte index is not a char boundary or out of range".

(* s.get(a..b) *)
Definition slice_get (bs : bytes) (a b : nat) : option bytes :=
  match slice bs a b with Done x => Some x | _ => None end.

(* char::from_u32 : scalar values only *)
Definition is_scalar (cp : N) : bool :=
  N.ltb cp 55296 || (N.leb 57344 cp && N.leb cp 1114111).   (* < D800 or E000..10FFFF *)

(* char::encode_utf8 *)
Definition encode_char (cp : N) : bytes :=
  if N.ltb cp 128 then [cp]
  else if N.ltb cp 2048 then [192 + cp / 64; 128 + cp mod 64]%N
  else if N.ltb cp 65536 then [224 + cp / 4096; 128 + (cp / 64) mod 64; 128 + cp mod 64]%N
  else [240 + cp / 262144; 128 + (cp / 4096) mod 64; 128 + (cp / 64) mod 64; 128 + cp mod 64]%N.

(* length in bytes of the character whose first byte is b (valid UTF-8 assumed) *)
Definition char_width (b : N) : nat :=
  if N.ltb b 128 then 1 else if N.ltb b 224 then 2 else if N.ltb b 240 then 3 else 4.

(* str::chars on valid UTF-8; on invalid input stray bytes decode as themselves (never used on such) *)
Fixpoint decode_chars_fuel (n : nat) (bs : bytes) : list N :=
  match n with
  | O => []
  | S n' =>
      match bs with
      | [] => []
      | b0 :: r0 =>
          match char_width b0, r0 with
          | 2, b1 :: r1 => ((b0 - 192) * 64 + (b1 - 128))%N :: decode_chars_fuel n' r1
          | 3, b1 :: b2 :: r2 => ((b0 - 224) * 4096 + (b1 - 128) * 64 + (b2 - 128))%N :: decode_chars_fuel n' r2
          | 4, b1 :: b2 :: b3 :: r3 =>
              ((b0 - 240) * 262144 + (b1 - 128) * 4096 + (b2 - 128) * 64 + (b3 - 128))%N :: decode_chars_fuel n' r3
          | _, _ => b0 :: decode_chars_fuel n' r0
          end
      end
  end.
Definition decode_chars (bs : bytes) : list N := decode_chars_fuel (length bs) bs.

Definition encode_chars (cps : list N) : bytes := flat_map encode_char cps.

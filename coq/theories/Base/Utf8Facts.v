(* Base/Utf8Facts.v — facts about Base/Utf8.v used by C13 and C20.

   The central fact is the "character view" of a Rust `str`:
       utf8_valid bs  ->  bs = encode_chars (decode_chars bs)  and every decoded value is a scalar,
   together with: char boundaries of `encode_chars cs` are exactly the lengths of `encode_chars pre`
   for the prefixes `pre` of cs; slicing between two such positions never panics and returns the
   encoding of the characters in between; concatenation preserves validity.                       *)
From FluentV Require Import Base.Utf8.
From Coq Require Import Lia ZifyBool ZifyNat ZifyN.

Ltac ub := unfold is_cont, is_ascii, is_scalar, in_rng in *.
Ltac arith := ub; zify; Z.div_mod_to_equations; lia.

(* split a boolean conjunction hypothesis without unfolding the range helpers *)
Ltac split_and H :=
  match type of H with
  | ?a && ?b = true =>
      let H1 := fresh H in let H2 := fresh H in
      destruct (andb_prop a b H) as [H1 H2]; clear H; split_and H1; split_and H2
  | _ => idtac
  end.

(* decide every `if` of the goal by arithmetic, else case-split *)
Ltac decide_ifs :=
  repeat match goal with
  | |- context[if ?x then _ else _] =>
      first [ replace x with true by (symmetry; arith)
            | replace x with false by (symmetry; arith) ]
  end.

Ltac decide_conj :=
  repeat match goal with
  | |- context[in_rng ?a ?b ?x] => replace (in_rng a b x) with true by (symmetry; arith)
  | |- context[is_cont ?x] => replace (is_cont x) with true by (symmetry; arith)
  end; cbn [andb].

Definition scalars (cs : list N) : Prop := Forall (fun c => is_scalar c = true) cs.

Lemma scalars_app a b : scalars (a ++ b) <-> scalars a /\ scalars b.
Proof. apply Forall_app. Qed.

Lemma scalars_cons c cs : scalars (c :: cs) <-> is_scalar c = true /\ scalars cs.
Proof. unfold scalars. split; [intros H; inversion H; auto | intros [H1 H2]; constructor; auto]. Qed.

(* the first byte of a character: never a continuation byte *)
Definition starts_char (b : bytes) : bool :=
  match b with [] => true | x :: _ => negb (is_cont x) end.

(* ------------------------------------------------------------------------------------------ *)
(* encode_char of a scalar value                                                               *)

Lemma encode_char_ascii c : (c < 128)%N -> encode_char c = [c].
Proof. intros H. unfold encode_char. decide_ifs. reflexivity. Qed.

Lemma encode_char_length c : 1 <= length (encode_char c) <= 4.
Proof.
  unfold encode_char.
  destruct (N.ltb c 128); [|destruct (N.ltb c 2048); [|destruct (N.ltb c 65536)]]; cbn; lia.
Qed.

Lemma encode_char_ne c : encode_char c <> [].
Proof. pose proof (encode_char_length c). destruct (encode_char c); cbn in *; [lia | discriminate]. Qed.

(* shape: an ASCII value is one byte equal to itself; any other scalar is a lead byte >= 192
   followed by continuation bytes only *)
Lemma encode_char_shape c : is_scalar c = true ->
  ((c < 128)%N /\ encode_char c = [c]) \/
  ((128 <= c)%N /\ exists b t, encode_char c = b :: t /\ (192 <= b < 256)%N /\
                               Forall (fun x => is_cont x = true) t).
Proof.
  intros Hc. unfold encode_char.
  destruct (N.ltb c 128) eqn:E1; [left; split; [arith | reflexivity]|].
  right. split; [arith|].
  destruct (N.ltb c 2048) eqn:E2; [|destruct (N.ltb c 65536) eqn:E3];
    eexists; eexists; (split; [reflexivity|]); (split; [arith|]);
    repeat constructor; arith.
Qed.

Lemma starts_char_encode_char c r : is_scalar c = true -> starts_char (encode_char c ++ r) = true.
Proof.
  intros Hc. destruct (encode_char_shape c Hc) as [[H ->] | [H (b & t & -> & Hb & _)]]; cbn; arith.
Qed.

Lemma utf8_valid_encode_char_app c r : is_scalar c = true ->
  utf8_valid (encode_char c ++ r) = utf8_valid r.
Proof.
  intros Hc. unfold encode_char.
  destruct (N.ltb c 128) eqn:E1; [|destruct (N.ltb c 2048) eqn:E2; [|destruct (N.ltb c 65536) eqn:E3]];
    cbn [app utf8_valid].
  - decide_ifs. reflexivity.
  - decide_ifs. decide_conj. reflexivity.
  - replace (is_ascii (224 + c / 4096)) with false by (symmetry; arith).
    replace (in_rng 194 223 (224 + c / 4096)) with false by (symmetry; arith).
    destruct (N.eqb (224 + c / 4096) 224) eqn:F1; [decide_conj; reflexivity|].
    destruct (in_rng 225 236 (224 + c / 4096) || in_rng 238 239 (224 + c / 4096)) eqn:F2;
      [decide_conj; reflexivity|].
    replace (N.eqb (224 + c / 4096) 237) with true by (symmetry; arith).
    decide_conj. reflexivity.
  - replace (is_ascii (240 + c / 262144)) with false by (symmetry; arith).
    replace (in_rng 194 223 (240 + c / 262144)) with false by (symmetry; arith).
    replace (N.eqb (240 + c / 262144) 224) with false by (symmetry; arith).
    replace (in_rng 225 236 (240 + c / 262144) || in_rng 238 239 (240 + c / 262144)) with false by (symmetry; arith).
    replace (N.eqb (240 + c / 262144) 237) with false by (symmetry; arith).
    destruct (N.eqb (240 + c / 262144) 240) eqn:F1; [decide_conj; reflexivity|].
    destruct (in_rng 241 243 (240 + c / 262144)) eqn:F2; [decide_conj; reflexivity|].
    replace (N.eqb (240 + c / 262144) 244) with true by (symmetry; arith).
    decide_conj. reflexivity.
Qed.

Lemma decode_encode_char_app n c r : is_scalar c = true ->
  decode_chars_fuel (S n) (encode_char c ++ r) = c :: decode_chars_fuel n r.
Proof.
  intros Hc. unfold encode_char.
  destruct (N.ltb c 128) eqn:E1; [|destruct (N.ltb c 2048) eqn:E2; [|destruct (N.ltb c 65536) eqn:E3]];
    cbn [app decode_chars_fuel]; unfold char_width; decide_ifs.
  - destruct r; reflexivity.
  - f_equal. arith.
  - f_equal. arith.
  - f_equal. arith.
Qed.

(* ------------------------------------------------------------------------------------------ *)
(* the character view of a valid string                                                        *)

Lemma encode_chars_cons c cs : encode_chars (c :: cs) = encode_char c ++ encode_chars cs.
Proof. reflexivity. Qed.

Lemma encode_chars_app a b : encode_chars (a ++ b) = encode_chars a ++ encode_chars b.
Proof. unfold encode_chars. apply flat_map_app. Qed.

Lemma utf8_valid_uncons b0 r0 : utf8_valid (b0 :: r0) = true ->
  exists c r, is_scalar c = true /\ b0 :: r0 = encode_char c ++ r /\ utf8_valid r = true.
Proof.
  cbn [utf8_valid].
  destruct (is_ascii b0) eqn:A0.
  { intros H. exists b0, r0. split; [arith|]. split; [|exact H]. rewrite encode_char_ascii by arith. reflexivity. }
  destruct (in_rng 194 223 b0) eqn:A1.
  { destruct r0 as [|b1 r1]; [discriminate|]. intros H. split_and H.
    exists ((b0 - 192) * 64 + (b1 - 128))%N, r1. split; [arith|]. split; [|assumption].
    unfold encode_char. decide_ifs. cbn [app]. repeat f_equal; arith. }
  assert (T3 : forall b1 b2 r2, (224 <= b0 <= 239)%N -> is_cont b1 = true -> is_cont b2 = true ->
               (b0 = 224 -> 160 <= b1)%N -> (b0 = 237 -> b1 <= 159)%N -> utf8_valid r2 = true ->
               exists c r, is_scalar c = true /\ b0 :: b1 :: b2 :: r2 = encode_char c ++ r /\ utf8_valid r = true).
  { intros b1 b2 r2 H0 H1 H2 H3 H4 H5.
    exists ((b0 - 224) * 4096 + (b1 - 128) * 64 + (b2 - 128))%N, r2. split; [arith|]. split; [|assumption].
    unfold encode_char. decide_ifs. cbn [app]. repeat f_equal; arith. }
  assert (T4 : forall b1 b2 b3 r3, (240 <= b0 <= 244)%N -> is_cont b1 = true -> is_cont b2 = true -> is_cont b3 = true ->
               (b0 = 240 -> 144 <= b1)%N -> (b0 = 244 -> b1 <= 143)%N -> utf8_valid r3 = true ->
               exists c r, is_scalar c = true /\ b0 :: b1 :: b2 :: b3 :: r3 = encode_char c ++ r /\ utf8_valid r = true).
  { intros b1 b2 b3 r3 H0 H1 H2 H3 H4 H5 H6.
    exists ((b0 - 240) * 262144 + (b1 - 128) * 4096 + (b2 - 128) * 64 + (b3 - 128))%N, r3.
    split; [arith|]. split; [|assumption].
    unfold encode_char. decide_ifs. cbn [app]. repeat f_equal; arith. }
  destruct (N.eqb b0 224) eqn:A2.
  { destruct r0 as [|b1 [|b2 r2]]; try discriminate. intros H. split_and H. apply T3; try assumption; arith. }
  destruct (in_rng 225 236 b0 || in_rng 238 239 b0) eqn:A3.
  { destruct r0 as [|b1 [|b2 r2]]; try discriminate. intros H. split_and H. apply T3; try assumption; arith. }
  destruct (N.eqb b0 237) eqn:A4.
  { destruct r0 as [|b1 [|b2 r2]]; try discriminate. intros H. split_and H. apply T3; try assumption; arith. }
  destruct (N.eqb b0 240) eqn:A5.
  { destruct r0 as [|b1 [|b2 [|b3 r3]]]; try discriminate. intros H. split_and H. apply T4; try assumption; arith. }
  destruct (in_rng 241 243 b0) eqn:A6.
  { destruct r0 as [|b1 [|b2 [|b3 r3]]]; try discriminate. intros H. split_and H. apply T4; try assumption; arith. }
  destruct (N.eqb b0 244) eqn:A7.
  { destruct r0 as [|b1 [|b2 [|b3 r3]]]; try discriminate. intros H. split_and H. apply T4; try assumption; arith. }
  discriminate.
Qed.

Lemma utf8_valid_chars bs : utf8_valid bs = true -> exists cs, scalars cs /\ bs = encode_chars cs.
Proof.
  remember (length bs) as n eqn:Hn. revert bs Hn.
  induction n as [n IH] using lt_wf_ind. intros bs Hn Hv.
  destruct bs as [|b0 r0]; [exists []; split; [constructor | reflexivity]|].
  destruct (utf8_valid_uncons _ _ Hv) as (c & r & Hc & He & Hr).
  assert (Hl : length r < n).
  { subst n. rewrite He, app_length. pose proof (encode_char_length c). lia. }
  destruct (IH _ Hl r eq_refl Hr) as (cs & Hcs & ->).
  exists (c :: cs). split; [apply scalars_cons; auto | exact He].
Qed.

Lemma utf8_valid_encode_chars cs : scalars cs -> utf8_valid (encode_chars cs) = true.
Proof.
  induction cs as [|c cs IH]; intros H; [reflexivity|]. apply scalars_cons in H as [Hc H].
  rewrite encode_chars_cons, utf8_valid_encode_char_app by exact Hc. auto.
Qed.

Lemma decode_chars_fuel_encode cs : scalars cs ->
  forall n, length (encode_chars cs) <= n -> decode_chars_fuel n (encode_chars cs) = cs.
Proof.
  induction cs as [|c cs IH]; intros H n Hn.
  - destruct n; reflexivity.
  - apply scalars_cons in H as [Hc H]. rewrite encode_chars_cons in *. rewrite app_length in Hn.
    pose proof (encode_char_length c). destruct n as [|n]; [lia|].
    rewrite decode_encode_char_app by exact Hc. f_equal. apply IH; [exact H | lia].
Qed.

Lemma decode_encode_chars cs : scalars cs -> decode_chars (encode_chars cs) = cs.
Proof. intros H. unfold decode_chars. apply decode_chars_fuel_encode; [exact H | lia]. Qed.

(* THE character view *)
Theorem utf8_valid_decode bs : utf8_valid bs = true ->
  scalars (decode_chars bs) /\ encode_chars (decode_chars bs) = bs.
Proof.
  intros Hv. destruct (utf8_valid_chars bs Hv) as (cs & Hcs & ->).
  rewrite decode_encode_chars by exact Hcs. auto.
Qed.

Lemma starts_char_encode_chars cs : scalars cs -> starts_char (encode_chars cs) = true.
Proof.
  destruct cs as [|c cs]; intros H; [reflexivity|]. apply scalars_cons in H as [Hc _].
  rewrite encode_chars_cons. apply starts_char_encode_char, Hc.
Qed.

(* concatenation *)
Lemma utf8_valid_app a b : utf8_valid a = true -> utf8_valid (a ++ b) = utf8_valid b.
Proof.
  intros Ha. destruct (utf8_valid_chars a Ha) as (cs & Hcs & ->). clear Ha.
  induction cs as [|c cs IH]; [reflexivity|]. apply scalars_cons in Hcs as [Hc Hcs].
  rewrite encode_chars_cons, <- app_assoc, utf8_valid_encode_char_app by exact Hc. auto.
Qed.

Lemma utf8_valid_app_intro a b : utf8_valid a = true -> utf8_valid b = true -> utf8_valid (a ++ b) = true.
Proof. intros Ha Hb. rewrite utf8_valid_app; assumption. Qed.

(* ------------------------------------------------------------------------------------------ *)
(* char boundaries                                                                             *)

Lemma nth_error_skipn {A} (l : list A) i : nth_error l i = hd_error (skipn i l).
Proof. revert l; induction i as [|i IH]; intros [|x l]; cbn; auto. Qed.

Lemma is_char_boundary_iff s i :
  is_char_boundary s i = true <-> i = 0 \/ (i <= length s /\ starts_char (skipn i s) = true).
Proof.
  unfold is_char_boundary. destruct (Nat.eqb i 0) eqn:E0; [apply Nat.eqb_eq in E0; tauto|].
  apply Nat.eqb_neq in E0.
  destruct (Nat.compare i (length s)) eqn:Ec.
  - apply Nat.compare_eq in Ec. subst i. rewrite skipn_all. cbn. intuition.
  - apply Nat.compare_lt_iff in Ec. rewrite nth_error_skipn.
    destruct (skipn i s) as [|x t] eqn:Es.
    + exfalso. apply (f_equal (@length _)) in Es. rewrite skipn_length in Es. cbn in Es. lia.
    + cbn. intuition.
  - apply Nat.compare_gt_iff in Ec. split; [discriminate | intros [H | [H _]]; lia].
Qed.

Lemma is_char_boundary_app_len a b : starts_char b = true -> is_char_boundary (a ++ b) (length a) = true.
Proof.
  intros H. apply is_char_boundary_iff. right. rewrite app_length. split; [lia|].
  rewrite skipn_app, skipn_all, Nat.sub_diag. cbn. exact H.
Qed.

(* positions strictly inside a character are not boundaries *)
Lemma inside_char_not_boundary a c r k : is_scalar c = true ->
  0 < k < length (encode_char c) ->
  exists x, nth_error (a ++ encode_char c ++ r) (length a + k) = Some x /\ is_cont x = true.
Proof.
  intros Hc Hk.
  destruct (encode_char_shape c Hc) as [[_ E] | [_ (b & t & E & _ & Ht)]]; rewrite E in *; cbn in Hk; [lia|].
  destruct k as [|k]; [lia|].
  assert (Hkt : k < length t) by lia.
  destruct (nth_error t k) as [x|] eqn:Ex; [|apply nth_error_None in Ex; lia].
  exists x. split.
  - rewrite nth_error_app2 by lia. replace (length a + S k - length a) with (S k) by lia.
    cbn. rewrite nth_error_app1 by lia. exact Ex.
  - eapply Forall_forall in Ht; [exact Ht|]. eapply nth_error_In, Ex.
Qed.

(* boundaries of a valid string are exactly the ends of character prefixes *)
Lemma boundary_split cs : scalars cs -> forall i,
  is_char_boundary (encode_chars cs) i = true ->
  exists pre post, cs = pre ++ post /\ i = length (encode_chars pre).
Proof.
  induction cs as [|c cs IH]; intros Hs i Hb.
  - apply is_char_boundary_iff in Hb. exists [], []. split; [reflexivity|]. cbn in *. lia.
  - apply scalars_cons in Hs as [Hc Hs].
    destruct (Nat.eq_dec i 0) as [->|Hi0]; [exists [], (c :: cs); auto|].
    destruct (Nat.lt_ge_cases i (length (encode_char c))) as [Hlt | Hge].
    + exfalso. destruct (inside_char_not_boundary [] c (encode_chars cs) i Hc ltac:(lia)) as (x & Hx & Hcx).
      cbn [app length Nat.add] in Hx. rewrite encode_chars_cons in Hb.
      unfold is_char_boundary in Hb. destruct (Nat.eqb_neq i 0) as [_ E]. rewrite (E Hi0) in Hb.
      destruct (Nat.compare i (length (encode_char c ++ encode_chars cs))) eqn:Ec.
      * apply Nat.compare_eq in Ec. rewrite app_length in Ec. lia.
      * rewrite Hx, Hcx in Hb. discriminate.
      * discriminate.
    + assert (Hb' : is_char_boundary (encode_chars cs) (i - length (encode_char c)) = true).
      { apply is_char_boundary_iff in Hb as [Hb | [Hb1 Hb2]]; [lia|].
        apply is_char_boundary_iff. right. rewrite encode_chars_cons, app_length in Hb1.
        split; [lia|]. rewrite encode_chars_cons, skipn_app in Hb2.
        rewrite skipn_all2 in Hb2 by lia. exact Hb2. }
      destruct (IH Hs _ Hb') as (pre & post & -> & Hi).
      exists (c :: pre), post. split; [reflexivity|]. rewrite encode_chars_cons, app_length. lia.
Qed.

Lemma boundary_prefix pre post : scalars post ->
  is_char_boundary (encode_chars (pre ++ post)) (length (encode_chars pre)) = true.
Proof.
  intros H. rewrite encode_chars_app. apply is_char_boundary_app_len, starts_char_encode_chars, H.
Qed.

(* &s[a..b] between two character positions *)
Lemma slice_chars pre mid post : scalars mid -> scalars post ->
  slice (encode_chars (pre ++ mid ++ post)) (length (encode_chars pre)) (length (encode_chars (pre ++ mid)))
  = Done (encode_chars mid).
Proof.
  intros Hm Hp. unfold slice.
  rewrite boundary_prefix by (apply scalars_app; auto).
  rewrite app_assoc, boundary_prefix by exact Hp.
  rewrite !encode_chars_app, !app_length.
  replace (Nat.leb _ _) with true by (symmetry; apply Nat.leb_le; lia).
  replace (Nat.leb _ _) with true by (symmetry; apply Nat.leb_le; lia).
  cbn [andb]. f_equal.
  rewrite <- app_assoc, skipn_app, skipn_all, Nat.sub_diag. cbn [skipn app].
  replace (_ + _ - _) with (length (encode_chars mid)) by lia.
  rewrite firstn_app, firstn_all, Nat.sub_diag. cbn. apply app_nil_r.
Qed.

(* pieces of a valid string cut at boundaries are valid *)
Lemma utf8_valid_firstn_skipn s i : utf8_valid s = true -> is_char_boundary s i = true ->
  utf8_valid (firstn i s) = true /\ utf8_valid (skipn i s) = true.
Proof.
  intros Hv Hb. destruct (utf8_valid_chars s Hv) as (cs & Hcs & ->).
  destruct (boundary_split cs Hcs i Hb) as (pre & post & -> & ->).
  apply scalars_app in Hcs as [H1 H2]. rewrite encode_chars_app.
  rewrite firstn_app, firstn_all, Nat.sub_diag, skipn_app, skipn_all, Nat.sub_diag. cbn [firstn skipn app].
  rewrite app_nil_r. split; apply utf8_valid_encode_chars; assumption.
Qed.

(* an ASCII byte of a valid string is a whole character: it sits at a boundary and is followed by one *)
Lemma ascii_at_boundary s i b : nth_error s i = Some b -> is_ascii b = true -> is_char_boundary s i = true.
Proof.
  intros Hn Hb. apply is_char_boundary_iff. right.
  assert (i < length s) by (apply nth_error_Some; congruence). split; [lia|].
  rewrite nth_error_skipn in Hn. destruct (skipn i s); [discriminate|]. cbn in *. injection Hn as ->. arith.
Qed.

Lemma ascii_followed_by_boundary s i b : utf8_valid s = true ->
  nth_error s i = Some b -> is_ascii b = true -> is_char_boundary s (S i) = true.
Proof.
  intros Hv Hn Hb. pose proof (ascii_at_boundary s i b Hn Hb) as Hi.
  destruct (utf8_valid_chars s Hv) as (cs & Hcs & ->).
  destruct (boundary_split cs Hcs i Hi) as (pre & post & -> & ->).
  apply scalars_app in Hcs as [H1 H2].
  rewrite encode_chars_app, nth_error_app2, Nat.sub_diag in Hn by lia.
  destruct post as [|c post]; [discriminate|]. apply scalars_cons in H2 as [Hc H2].
  rewrite encode_chars_cons in Hn.
  destruct (encode_char_shape c Hc) as [[_ E] | [_ (x & t & E & Hx & _)]]; rewrite E in Hn; cbn in Hn;
    injection Hn as <-; [|arith].
  replace (pre ++ c :: post) with ((pre ++ [c]) ++ post) by (rewrite <- app_assoc; reflexivity).
  replace (S (length (encode_chars pre))) with (length (encode_chars (pre ++ [c]))).
  - apply boundary_prefix, H2.
  - rewrite encode_chars_app, app_length. cbn. rewrite E, app_nil_r. cbn. lia.
Qed.

(* Base/BytesFacts.v — the byte-string order is a strict total order. *)
From FluentV Require Import Base.Bytes.
From Coq Require Import Lia.

Lemma bytes_compare_refl a : bytes_compare a a = Eq.
Proof. induction a as [|x a IH]; cbn; [reflexivity|]. rewrite N.compare_refl. exact IH. Qed.

Lemma bytes_compare_eq a b : bytes_compare a b = Eq -> a = b.
Proof.
  revert b; induction a as [|x a IH]; intros [|y b]; cbn; try discriminate; [reflexivity|].
  destruct (N.compare x y) eqn:E; try discriminate.
  intros H. apply N.compare_eq in E. f_equal; [exact E | apply IH, H].
Qed.

Lemma bytes_compare_eq_iff a b : bytes_compare a b = Eq <-> a = b.
Proof. split; [apply bytes_compare_eq | intros ->; apply bytes_compare_refl]. Qed.

Lemma bytes_compare_antisym a b : bytes_compare b a = CompOpp (bytes_compare a b).
Proof.
  revert b; induction a as [|x a IH]; intros [|y b]; cbn; try reflexivity.
  rewrite (N.compare_antisym x y).
  destruct (N.compare x y); cbn; [apply IH | reflexivity | reflexivity].
Qed.

Lemma bytes_lt_gt a b : bytes_compare a b = Lt <-> bytes_compare b a = Gt.
Proof. rewrite (bytes_compare_antisym a b). destruct (bytes_compare a b); cbn; split; congruence. Qed.

Lemma bytes_lt_trans a b c : bytes_lt a b -> bytes_lt b c -> bytes_lt a c.
Proof.
  unfold bytes_lt. revert b c; induction a as [|x a IH]; intros [|y b] [|z c]; cbn; try congruence.
  destruct (N.compare x y) eqn:Exy; try discriminate;
  destruct (N.compare y z) eqn:Eyz; try discriminate; intros H1 H2.
  - apply N.compare_eq in Exy, Eyz. subst. rewrite N.compare_refl. eapply IH; eassumption.
  - apply N.compare_eq in Exy. subst. rewrite Eyz. reflexivity.
  - apply N.compare_eq in Eyz. subst. rewrite Exy. reflexivity.
  - rewrite N.compare_lt_iff in *. assert (x < z)%N as H by lia.
    apply N.compare_lt_iff in H. rewrite H. reflexivity.
Qed.

Lemma bytes_lt_irrefl a : ~ bytes_lt a a.
Proof. unfold bytes_lt. rewrite bytes_compare_refl. discriminate. Qed.

Lemma bytes_lt_neq a b : bytes_lt a b -> a <> b.
Proof. intros H ->. exact (bytes_lt_irrefl _ H). Qed.

Lemma bytes_eqb_eq a b : bytes_eqb a b = true <-> a = b.
Proof.
  revert b; induction a as [|x a IH]; intros [|y b]; cbn; split; try congruence; try reflexivity.
  - intros H. apply andb_prop in H as [H1 H2]. apply N.eqb_eq in H1. apply IH in H2. congruence.
  - intros [= -> ->]. rewrite N.eqb_refl. apply IH. reflexivity.
Qed.

Lemma bytes_eq_dec (a b : bytes) : {a = b} + {a <> b}.
Proof. decide equality. apply N.eq_dec. Qed.

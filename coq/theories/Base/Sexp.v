(* Base/Sexp.v — the universal case / result format shared by the model, the OCaml driver,
   the Rust harness and the Python driver.  No proofs here.

   text form:  ( ... )   list
               -?[0-9]+  integer
               sym       atom whose bytes are [A-Za-z_][A-Za-z0-9_.-]*
               #hex      atom given as hex bytes (empty atom = "#")                       *)
From Coq Require Export String Ascii.
From Coq Require Export List NArith ZArith Bool.
Export ListNotations.

Definition bytes := list N.

Inductive sexp : Type :=
| A (bs : bytes)
| I (z : Z)
| L (l : list sexp).

(* ASCII helper: a Coq string literal as bytes (used for tags only). *)
Fixpoint bytes_of_string (s : string) : bytes :=
  match s with
  | EmptyString => []
  | String c r => N_of_ascii c :: bytes_of_string r
  end.
Definition sym (s : string) : sexp := A (bytes_of_string s).

Fixpoint bytes_eqb (a b : bytes) : bool :=
  match a, b with
  | [], [] => true
  | x :: a', y :: b' => N.eqb x y && bytes_eqb a' b'
  | _, _ => false
  end.

Definition is_sym (s : string) (x : sexp) : bool :=
  match x with
  | A bs => bytes_eqb bs (bytes_of_string s)
  | _ => false
  end.

Definition sbool (b : bool) : sexp := if b then sym "true" else sym "false".
Definition snat (n : nat) : sexp := I (Z.of_nat n).
Definition sN (n : N) : sexp := I (Z.of_N n).
Definition sopt {X} (f : X -> sexp) (o : option X) : sexp :=
  match o with None => sym "none" | Some x => L [sym "some"; f x] end.
Definition slist {X} (f : X -> sexp) (l : list X) : sexp := L (map f l).

Definition bad : sexp := sym "BAD-CASE".

(* structural equality, used by the in-Coq cross-check of extraction (lib/engine.py extraction_cross_check) *)
Fixpoint sexp_eqb (a b : sexp) : bool :=
  match a, b with
  | A x, A y => bytes_eqb x y
  | I x, I y => Z.eqb x y
  | L x, L y =>
      (fix go (l1 l2 : list sexp) : bool :=
         match l1, l2 with
         | [], [] => true
         | s1 :: r1, s2 :: r2 => sexp_eqb s1 s2 && go r1 r2
         | _, _ => false
         end) x y
  | _, _ => false
  end.

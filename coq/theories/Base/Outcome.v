(* Base/Outcome.v — result of a modelled Rust function that may panic or run on fuel. *)
From FluentV Require Export Base.Sexp.

Inductive outcome (X : Type) : Type :=
| Done (x : X)
| Panic (tag : string)
| OutOfFuel.
Arguments Done {X} x.
Arguments Panic {X} tag.
Arguments OutOfFuel {X}.

Definition obind {X Y} (o : outcome X) (f : X -> outcome Y) : outcome Y :=
  match o with
  | Done x => f x
  | Panic t => Panic t
  | OutOfFuel => OutOfFuel
  end.

Definition omap {X Y} (f : X -> Y) (o : outcome X) : outcome Y :=
  obind o (fun x => Done (f x)).

Notation "'let*' x ':=' o 'in' k" := (obind o (fun x => k))
  (at level 200, x pattern, o at level 100, k at level 200, right associativity).

Definition is_done {X} (o : outcome X) : bool :=
  match o with Done _ => true | _ => false end.

Definition soutcome {X} (f : X -> sexp) (o : outcome X) : sexp :=
  match o with
  | Done x => L [sym "ok"; f x]
  | Panic t => L [sym "PANIC"; sym t]
  | OutOfFuel => sym "OUT-OF-FUEL"
  end.

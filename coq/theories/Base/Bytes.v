(* Base/Bytes.v — byte strings (Rust `str`/`[u8]` as `list N`), bytewise lexicographic order
   (= Rust's `impl Ord for str`).  Definitions only. *)
From FluentV Require Export Base.Sexp.

Fixpoint bytes_compare (a b : bytes) : comparison :=
  match a, b with
  | [], [] => Eq
  | [], _ :: _ => Lt
  | _ :: _, [] => Gt
  | x :: a', y :: b' =>
      match N.compare x y with
      | Eq => bytes_compare a' b'
      | c => c
      end
  end.

Definition bytes_lt (a b : bytes) : Prop := bytes_compare a b = Lt.

Fixpoint starts_with (p s : bytes) : bool :=
  match p, s with
  | [], _ => true
  | x :: p', y :: s' => N.eqb x y && starts_with p' s'
  | _ :: _, [] => false
  end.

Definition byte_in (b : N) (l : list N) : bool := existsb (N.eqb b) l.

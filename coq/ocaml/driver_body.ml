(* driver_body.ml — appended to an extracted model (which defines sexp = A | I | L, positive, n, z
   and run_case : sexp -> sexp).  Reads one s-expression per line on stdin, prints run_case's
   result, one per line.  Lines that are empty or start with ';' are echoed as empty results.   *)

let rec pos_of_int n =
  if n = 1 then XH
  else if n land 1 = 0 then XO (pos_of_int (n lsr 1))
  else XI (pos_of_int (n lsr 1))
let n_of_int n = if n = 0 then N0 else Npos (pos_of_int n)
let z_of_int n =
  if n = 0 then Z0 else if n > 0 then Zpos (pos_of_int n) else Zneg (pos_of_int (-n))
let rec int_of_pos = function
  | XH -> 1
  | XO p -> 2 * int_of_pos p
  | XI p -> 2 * int_of_pos p + 1
let int_of_n = function N0 -> 0 | Npos p -> int_of_pos p
let int_of_z = function Z0 -> 0 | Zpos p -> int_of_pos p | Zneg p -> - (int_of_pos p)

exception Parse_error of Stdlib.String.t

let is_sym_start c = (c >= 'A' && c <= 'Z') || (c >= 'a' && c <= 'z') || c = '_'
let is_sym_char c = is_sym_start c || (c >= '0' && c <= '9') || c = '.' || c = '-'
let is_digit c = c >= '0' && c <= '9'
let hexval c =
  if c >= '0' && c <= '9' then Char.code c - 48
  else if c >= 'a' && c <= 'f' then Char.code c - 87
  else if c >= 'A' && c <= 'F' then Char.code c - 55
  else raise (Parse_error "hex")

let parse s : sexp =
  let len = String.length s in
  let pos = ref 0 in
  let skip () = while !pos < len && (s.[!pos] = ' ' || s.[!pos] = '\t' || s.[!pos] = '\r') do incr pos done in
  let rec item () : sexp =
    skip ();
    if !pos >= len then raise (Parse_error "eof");
    let c = s.[!pos] in
    if c = '(' then begin
      incr pos;
      let acc = ref [] in
      let fin = ref false in
      while not !fin do
        skip ();
        if !pos >= len then raise (Parse_error "unclosed");
        if s.[!pos] = ')' then (incr pos; fin := true)
        else acc := item () :: !acc
      done;
      L (List.rev !acc)
    end else if c = '#' then begin
      incr pos;
      let acc = ref [] in
      while !pos + 1 < len && (let d = s.[!pos] in is_digit d || (d >= 'a' && d <= 'f') || (d >= 'A' && d <= 'F')) do
        acc := n_of_int (16 * hexval s.[!pos] + hexval s.[!pos + 1]) :: !acc;
        pos := !pos + 2
      done;
      A (List.rev !acc)
    end else if is_digit c || (c = '-' && !pos + 1 < len && is_digit s.[!pos + 1]) then begin
      let st = !pos in
      incr pos;
      while !pos < len && is_digit s.[!pos] do incr pos done;
      I (z_of_int (int_of_string (String.sub s st (!pos - st))))
    end else if is_sym_start c then begin
      let st = !pos in
      while !pos < len && is_sym_char s.[!pos] do incr pos done;
      let acc = ref [] in
      for i = !pos - 1 downto st do acc := n_of_int (Char.code s.[i]) :: !acc done;
      A !acc
    end else raise (Parse_error (Printf.sprintf "char %c at %d" c !pos))
  in
  let r = item () in
  skip ();
  if !pos < len then raise (Parse_error "trailing");
  r

let symbolic (bs : int list) =
  match bs with
  | [] -> false
  | b :: _ -> is_sym_start (Char.chr b) && List.for_all (fun b -> b < 128 && is_sym_char (Char.chr b)) bs

let rec print (b : Buffer.t) (x : sexp) : unit =
  match x with
  | I z -> Buffer.add_string b (string_of_int (int_of_z z))
  | A bs ->
    let ints = List.map int_of_n bs in
    if symbolic ints then List.iter (fun i -> Buffer.add_char b (Char.chr i)) ints
    else begin
      Buffer.add_char b '#';
      List.iter (fun i -> Buffer.add_string b (Printf.sprintf "%02x" (i land 255))) ints
    end
  | L l ->
    Buffer.add_char b '(';
    List.iteri (fun i y -> if i > 0 then Buffer.add_char b ' '; print b y) l;
    Buffer.add_char b ')'

let () =
  let b = Buffer.create 65536 in
  (try
     while true do
       let line = input_line stdin in
       if String.length line = 0 || line.[0] = ';' then print_newline ()
       else begin
         Buffer.clear b;
         (try print b (run_case (parse line)) with
          | Parse_error m -> Buffer.add_string b ("(DRIVER-PARSE-ERROR " ^ m ^ ")")
          | Stack_overflow -> Buffer.add_string b "(DRIVER-STACK-OVERFLOW)");
         print_string (Buffer.contents b);
         print_newline ()
       end
     done
   with End_of_file -> ());
  flush stdout

#!/usr/bin/env python3
"""tools/confirm_seed.py <dir with patch.diff demo.rs demo_how_to_run.txt meta.json> <name>
Confirms a seeded change independently in a scratch worktree (outside /repo and /verif, removed afterwards):
 (1) the demo passes on unmodified HEAD, (2) with the patch the whole existing test suite still passes,
 (3) with the patch the demo fails.  On success the change is kept as /verif/seeded/<name>/."""
import json
import os
import re
import shutil
import subprocess
import sys

ROOT = os.path.dirname(os.path.dirname(os.path.abspath(__file__)))
TARGET = '/tmp/seedconfirm_target'


def sh(cmd, cwd, timeout=3600):
    env = dict(os.environ, CARGO_NET_OFFLINE='true', CARGO_TARGET_DIR=TARGET)
    p = subprocess.run(cmd, cwd=cwd, shell=True, env=env, capture_output=True, text=True, timeout=timeout)
    return p.returncode, p.stdout + p.stderr


def main():
    src, name = sys.argv[1], sys.argv[2]
    how = open(os.path.join(src, 'demo_how_to_run.txt')).read()
    how = re.sub(r'\\\s*\n\s*', ' ', how)
    m1 = re.search(r'cp\s+\S*demo\.rs\s+(\S+)', how) or re.search(r'(\S*[\w-]+/(?:tests|examples)/seed_demo_\d+\.rs)', how)
    m2 = re.search(r'cargo test\s+(-p\s+\S+)\s+--offline\s+(--test\s+\S+|--example\s+\S+|\S+)?', how) or re.search(r'cargo test[^\n]*(-p\s+\S+)[^\n]*?(--test\s+\S+)', how)
    if not m1 or not m2:
        print('cannot parse demo_how_to_run.txt; confirm by hand')
        return 2
    dest = m1.group(1)
    dest = re.sub(r'^/tmp/seed\d*_C\d+/', '', dest)
    dest = dest.replace('<checkout>/', '').replace('<worktree>/', '')
    testsel = m2.group(1) + ' ' + (m2.group(2) or '')
    wt = '/tmp/seedconfirm_wt'
    subprocess.call(['git', '-C', '/repo', 'worktree', 'remove', '--force', wt], stderr=subprocess.DEVNULL)
    subprocess.check_call(['git', '-C', '/repo', 'worktree', 'add', '-q', wt, 'HEAD'])
    ran = []
    try:
        shutil.copy('/repo/Cargo.lock', wt)
        os.makedirs(os.path.dirname(os.path.join(wt, dest)), exist_ok=True)
        shutil.copy(os.path.join(src, 'demo.rs'), os.path.join(wt, dest))
        cmd_demo = 'cargo test %s --offline' % testsel
        rc0, out0 = sh(cmd_demo, wt)
        ran.append('%s   (HEAD, no patch) -> exit %d' % (cmd_demo, rc0))
        os.remove(os.path.join(wt, dest))
        rca, outa = sh('git apply ' + os.path.abspath(os.path.join(src, 'patch.diff')), wt)
        if rca != 0:
            print('patch does not apply:', outa)
            return 1
        rc1, out1 = sh('cargo test --workspace --no-fail-fast --offline', wt)
        passed = sum(int(x) for x in re.findall(r'test result: \w+\. (\d+) passed', out1))
        failed = sum(int(x) for x in re.findall(r'test result: \w+\. \d+ passed; (\d+) failed', out1))
        ran.append('cargo test --workspace --no-fail-fast --offline   (with patch) -> exit %d, %d passed, %d failed' % (rc1, passed, failed))
        shutil.copy(os.path.join(src, 'demo.rs'), os.path.join(wt, dest))
        rc2, out2 = sh(cmd_demo, wt)
        ran.append('%s   (with patch) -> exit %d' % (cmd_demo, rc2))
        ok = rc0 == 0 and rc1 == 0 and failed == 0 and rc2 != 0
        print(name, 'demo on HEAD exit', rc0, '| suite with patch exit', rc1, 'passed', passed, 'failed', failed, '| demo with patch exit', rc2, '=>', 'CONFIRMED' if ok else 'NOT CONFIRMED')
        if not ok:
            print(out0[-800:] if rc0 else '', out1[-800:] if rc1 else '', out2[-400:] if rc2 == 0 else '')
            return 1
        dst = os.path.join(ROOT, 'seeded', name)
        os.makedirs(dst, exist_ok=True)
        for f in ('patch.diff', 'demo.rs', 'demo_how_to_run.txt'):
            shutil.copy(os.path.join(src, f), dst)
        meta = json.load(open(os.path.join(src, 'meta.json')))
        meta['origin'] = 'independent sub-agent given only the property text and a scratch worktree'
        meta['confirmed_by_lead'] = ran
        meta['demo_destination'] = dest
        json.dump(meta, open(os.path.join(dst, 'meta.json'), 'w'), indent=1)
        return 0
    finally:
        subprocess.call(['git', '-C', '/repo', 'worktree', 'remove', '--force', wt])


if __name__ == '__main__':
    sys.exit(main())

#!/usr/bin/env python3
"""Translator for literal data: reads /repo's current Rust sources and writes Coq definitions
(Gen/Extracted.v) for the constants the theorems mention.  Regex-level and deliberately limited to
literals.  A constant that cannot be found is *omitted*, which makes the dependent Props file fail
to compile (= a broken proof obligation, handled by ./check's decision rule)."""
import os
import re
import sys


def read(repo, rel):
    try:
        return open(os.path.join(repo, rel), encoding='utf-8').read()
    except OSError:
        return ''


def coq_bytes(b):
    return '[' + '; '.join(str(x) for x in b) + ']%N'


def char_lit(tok):
    """Rust char literal body -> code point."""
    if tok.startswith('\\u{'):
        return int(tok[3:-1], 16)
    esc = {'\\n': 10, '\\r': 13, '\\t': 9, '\\\\': 92, "\\'": 39, '\\"': 34, '\\0': 0}
    if tok in esc:
        return esc[tok]
    if len(tok) == 1:
        return ord(tok)
    raise ValueError(tok)


def main():
    repo, out = sys.argv[1], sys.argv[2]
    defs = []
    missing = []

    def add(name, body, src):
        defs.append('(* %s *)\nDefinition %s := %s.\n' % (src, name, body))

    # resolver/pattern.rs
    s = read(repo, 'fluent-bundle/src/resolver/pattern.rs')
    m = re.search(r'const\s+MAX_PLACEABLES\s*:\s*(\w+)\s*=\s*(\d+)\s*;', s)
    if m:
        add('MAX_PLACEABLES', '%s%%N' % m.group(2), 'fluent-bundle/src/resolver/pattern.rs')
        bits = {'u8': 8, 'u16': 16, 'u32': 32, 'u64': 64, 'usize': 64}.get(m.group(1))
        if bits:
            add('PLACEABLES_BITS', '%d%%N' % bits, 'type of MAX_PLACEABLES / Scope::placeables')
        else:
            missing.append('PLACEABLES_BITS')
    else:
        missing.append('MAX_PLACEABLES')
    marks = re.findall(r"write_char\('(\\u\{[0-9a-fA-F]+\})'\)", s)
    if len(marks) == 2:
        add('FSI', '%d%%N' % char_lit(marks[0]), 'first write_char in resolver/pattern.rs')
        add('PDI', '%d%%N' % char_lit(marks[1]), 'second write_char in resolver/pattern.rs')
    else:
        missing.append('FSI/PDI')

    # unicode.rs
    s = read(repo, 'fluent-syntax/src/unicode.rs')
    m = re.search(r"const\s+UNKNOWN_CHAR\s*:\s*char\s*=\s*'([^']+)'\s*;", s)
    if m:
        add('UNKNOWN_CHAR', '%d%%N' % char_lit(m.group(1)), 'fluent-syntax/src/unicode.rs')
    else:
        missing.append('UNKNOWN_CHAR')

    # fluent-pseudo tables
    s = read(repo, 'fluent-pseudo/src/lib.rs')
    for name in ['TRANSFORM_SMALL_MAP', 'TRANSFORM_CAPS_MAP', 'FLIPPED_SMALL_MAP', 'FLIPPED_CAPS_MAP']:
        m = re.search(r'static\s+%s\s*:\s*&\[char\]\s*=\s*&\[(.*?)\];' % name, s, re.S)
        if m:
            chars = re.findall(r"'((?:\\.|\\u\{[0-9a-fA-F]+\}|[^'\\]))'", m.group(1))
            add(name, '[' + '; '.join(str(char_lit(c)) for c in chars) + ']%N', 'fluent-pseudo/src/lib.rs')
        else:
            missing.append(name)
    m = re.search(r'Regex::new\(r"([^"]*)"\)', s)
    res = re.findall(r'Regex::new\(r"([^"]*)"\)', s)
    if len(res) >= 2:
        add('RE_EXCLUDED_SRC', coq_bytes(res[0].encode()), 'fluent-pseudo/src/lib.rs first Regex::new')
        add('RE_AZ_SRC', coq_bytes(res[1].encode()), 'fluent-pseudo/src/lib.rs second Regex::new')
    else:
        missing.append('RE_*')
    m = re.search(r'elongate\s*&&\s*\(((?:\s*cc\s*==\s*\d+\s*(?:\|\|)?)+)\)', s)
    if m:
        nums = re.findall(r'cc\s*==\s*(\d+)', m.group(1))
        add('ELONGATE_SET', '[' + '; '.join(nums) + ']%N', 'fluent-pseudo/src/lib.rs elongate test')
    else:
        missing.append('ELONGATE_SET')
    m1 = re.search(r'\((\d+)\.\.=(\d+)\)\.contains\(&cc\)\s*\{\s*let pos = cc - (\d+);\s*let new_char = small_map', s)
    m2 = re.search(r'\((\d+)\.\.=(\d+)\)\.contains\(&cc\)\s*\{\s*let pos = cc - (\d+);\s*let new_char = caps_map', s)
    if m1 and m2:
        add('SMALL_RANGE', '(%s, %s, %s)%%N' % m1.groups(), 'fluent-pseudo/src/lib.rs small range (lo, hi, base)')
        add('CAPS_RANGE', '(%s, %s, %s)%%N' % m2.groups(), 'fluent-pseudo/src/lib.rs caps range (lo, hi, base)')
    else:
        missing.append('SMALL_RANGE/CAPS_RANGE')

    # resource manager placeholders
    s = read(repo, 'fluent-resmgr/src/resource_manager.rs')
    ph = re.findall(r'\.replace\("(\{[a-z_]+\})"', s)
    if len(ph) >= 2:
        add('PLACEHOLDER_1', coq_bytes(ph[0].encode()), 'resource_manager.rs first replace')
        add('PLACEHOLDER_2', coq_bytes(ph[1].encode()), 'resource_manager.rs second replace')
    else:
        missing.append('PLACEHOLDER')

    # plural keyword list in types/mod.rs matches
    s = read(repo, 'fluent-bundle/src/types/mod.rs')
    kws = re.findall(r'"(zero|one|two|few|many|other)"\s*=>\s*PluralCategory::([A-Z]+)', s)
    if len(kws) == 6 and all(a.upper() == b for a, b in kws):
        add('PLURAL_KEYWORDS', '[' + '; '.join(coq_bytes(a.encode()) for a, _ in kws) + ']', 'types/mod.rs matches')
    else:
        missing.append('PLURAL_KEYWORDS')

    # serializer indent unit
    s = read(repo, 'fluent-syntax/src/serializer.rs')
    m = re.search(r'self\.buffer\.push_str\("( +)"\)', s)
    if m:
        add('SERIALIZER_INDENT', coq_bytes(m.group(1).encode()), 'serializer.rs write_indent')
    else:
        missing.append('SERIALIZER_INDENT')

    os.makedirs(os.path.dirname(out), exist_ok=True)
    # ---- parser byte classes (fluent-syntax/src/parser) ----
    def byte_lits(text):
        """b'x' / b'\\n' literals in a piece of Rust source -> list of byte values"""
        out_ = []
        for m_ in re.finditer(r"b'((?:\\.|[^'\\]))'", text):
            out_.append(char_lit(m_.group(1)))
        return out_

    def char_lits(text):
        out_ = []
        for m_ in re.finditer(r"'((?:\\.|[^'\\]))'", text):
            out_.append(char_lit(m_.group(1)))
        return out_

    def nlist(l):
        return '[' + '; '.join(str(x) for x in l) + ']%N'

    h = read(repo, 'fluent-syntax/src/parser/helper.rs')
    m = re.search(r'fn is_byte_pattern_continuation\(b: u8\) -> bool \{\s*!matches!\(b,([^)]*)\)', h)
    if m:
        add('PARSER_NOT_CONTINUATION', nlist(byte_lits(m.group(1))), 'helper.rs is_byte_pattern_continuation: !matches!(b, ..)')
    else:
        missing.append('PARSER_NOT_CONTINUATION')
    m = re.search(r'new_line && \(b\.is_ascii_alphabetic\(\) \|\| \[([^\]]*)\]\.contains\(b\)\)', h)
    if m:
        add('PARSER_ENTRY_START_EXTRA', nlist(byte_lits(m.group(1))), 'helper.rs scan_to_next_entry_start: alphabetic or one of these')
    else:
        missing.append('PARSER_ENTRY_START_EXTRA')
    m = re.search(r'fn is_callee.*?\.all\(\|c\| c\.is_ascii_uppercase\(\) \|\| c\.is_ascii_digit\(\)((?: \|\| \*c == b\'.\')*)\)', h, re.S)
    if m:
        add('PARSER_CALLEE_EXTRA', nlist(byte_lits(m.group(1))), 'helper.rs is_callee: uppercase, digit or one of these')
    else:
        missing.append('PARSER_CALLEE_EXTRA')
    c = read(repo, 'fluent-syntax/src/parser/core.rs')
    m = re.search(r'b\.is_ascii_alphanumeric\(\)((?: \|\| \*b == b\'.\')*)\)', c)
    if m:
        add('PARSER_IDENT_EXTRA', nlist(byte_lits(m.group(1))), 'core.rs get_identifier_unchecked: alphanumeric or one of these')
    else:
        missing.append('PARSER_IDENT_EXTRA')
    sl = read(repo, 'fluent-syntax/src/parser/slice.rs')
    m = re.search(r'fn matches_fluent_ws\(c: char\) -> bool \{([^}]*)\}', sl)
    if m:
        add('FLUENT_WS', nlist(char_lits(m.group(1))), 'slice.rs matches_fluent_ws')
    else:
        missing.append('FLUENT_WS')
    pt = read(repo, 'fluent-syntax/src/parser/pattern.rs')
    m = re.search(r'memchr::memchr3\(([^)]*)rest\)', pt)
    if m:
        add('PARSER_TEXT_STOP', nlist(byte_lits(m.group(1))), 'pattern.rs get_text_slice: memchr3 stop bytes')
    else:
        missing.append('PARSER_TEXT_STOP')
    ex = read(repo, 'fluent-syntax/src/parser/expression.rs')
    m = re.search(r"b'\\\\' => match get_byte!\(self, self\.ptr \+ 1\) \{\s*((?:Some\(b'(?:\\.|[^'])'\)\s*\|?\s*)+)=> self\.ptr \+= 2", ex)
    if m:
        add('PARSER_SIMPLE_ESCAPES', nlist(byte_lits(m.group(1))), 'expression.rs string literal: two-byte escapes')
    else:
        missing.append('PARSER_SIMPLE_ESCAPES')
    lens = re.findall(r'skip_unicode_escape_sequence\((\d+)\)', ex)
    if len(lens) == 2:
        add('PARSER_UNICODE_ESCAPE_LENGTHS', '(%s, %s)%%nat' % (lens[0], lens[1]), 'expression.rs: hex digits after \\u and \\U')
    else:
        missing.append('PARSER_UNICODE_ESCAPE_LENGTHS')

    # NUMBER() option keys and the kind of value each accepts (types/number.rs FluentNumberOptions::merge)
    nm = read(repo, 'fluent-bundle/src/types/number.rs')
    mm = re.search(r'pub fn merge\(&mut self, opts: &FluentArgs\) \{(.*?)\n    \}\n', nm, re.S)
    if mm:
        skeys = re.findall(r'\("(\w+)", FluentValue::String\(', mm.group(1))
        nkeys = re.findall(r'\("(\w+)", FluentValue::Number\(', mm.group(1))
        if skeys and nkeys:
            add('NUMBER_STRING_OPTION_KEYS', '[' + '; '.join(coq_bytes(k.encode()) for k in skeys) + ']', 'number.rs merge: keys taking a string')
            add('NUMBER_NUMBER_OPTION_KEYS', '[' + '; '.join(coq_bytes(k.encode()) for k in nkeys) + ']', 'number.rs merge: keys taking a number')
        else:
            missing.append('NUMBER_OPTION_KEYS')
    else:
        missing.append('NUMBER_OPTION_KEYS')

    with open(out + '.tmp', 'w', encoding='utf-8') as f:
        f.write('(* Gen/Extracted.v — GENERATED by tools/extract_consts.py from the Rust sources of the repository under check; do not edit. *)\n')
        f.write('From Coq Require Import List NArith.\nImport ListNotations.\n\n')
        for d in defs:
            f.write(d + '\n')
        if missing:
            f.write('(* NOT FOUND in the source (dependent theorems will not compile): %s *)\n' % ', '.join(missing))
    old = open(out).read() if os.path.exists(out) else None
    new = open(out + '.tmp').read()
    if old != new:
        os.replace(out + '.tmp', out)
    else:
        os.remove(out + '.tmp')
    if missing:
        print('extract_consts: not found: ' + ', '.join(missing))


if __name__ == '__main__':
    main()

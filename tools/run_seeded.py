#!/usr/bin/env python3
"""tools/run_seeded.py [ids...] — run the registered checks against every kept seeded change in /verif/seeded/<name>/patch.diff.
Each patch is applied to a scratch git worktree of /repo (outside /repo and /verif, removed afterwards) and the check of the
property named in meta.json runs with VERIF_REPO pointing at it.  Expected: VIOLATION (exit 1).  Results go to seeded/RESULTS.json."""
import json
import os
import shutil
import subprocess
import sys
import tempfile

ROOT = os.path.dirname(os.path.dirname(os.path.abspath(__file__)))


def main():
    only = set(sys.argv[1:])
    sd = os.path.join(ROOT, os.environ.get('SEED_DIR', 'seeded'))
    results = {}
    rp = os.path.join(sd, 'RESULTS.json')
    if os.path.exists(rp):
        results = json.load(open(rp))
    for name in sorted(os.listdir(sd)):
        d = os.path.join(sd, name)
        if not os.path.isdir(d) or not os.path.exists(os.path.join(d, 'patch.diff')):
            continue
        if only and name not in only:
            continue
        meta = json.load(open(os.path.join(d, 'meta.json')))
        pid = meta['property']
        wt = tempfile.mkdtemp(prefix='seedwt_', dir='/tmp')
        os.rmdir(wt)
        subprocess.check_call(['git', '-C', '/repo', 'worktree', 'add', '-q', wt, 'HEAD'])
        try:
            if subprocess.call(['git', '-C', wt, 'apply', os.path.join(d, 'patch.diff')]) != 0:
                print(name, pid, 'PATCH-DOES-NOT-APPLY', flush=True)
                continue
            env = dict(os.environ, VERIF_REPO=wt)
            p = subprocess.run([os.path.join(ROOT, 'check'), pid, '--tier', 'quick'], cwd=ROOT, env=env, capture_output=True, text=True, timeout=3600)
            lines = [l for l in p.stdout.split('\n') if l.startswith('VIOLATION') or l.startswith('OK ') or l.startswith('KNOWN-FINDING')]
            if os.path.exists(rp):
                results = json.load(open(rp))
            results[name] = {'property': pid, 'exit': p.returncode, 'caught': p.returncode == 1 and any(l.startswith('VIOLATION') for l in lines),
                             'lines': lines[:4], 'detail': [l for l in p.stderr.split('\n') if l.strip()][:3]}
            json.dump(results, open(rp, 'w'), indent=1, sort_keys=True)
            print(name, pid, 'CAUGHT' if results[name]['caught'] else 'MISSED', lines[:2], flush=True)
        finally:
            subprocess.call(['git', '-C', '/repo', 'worktree', 'remove', '--force', wt])
            tag_dirs = [os.path.join(ROOT, '.cache', 'target_alt'), os.path.join(ROOT, '.cache', 'harness_alt')]
            import hashlib
            tag = hashlib.sha1(os.path.realpath(wt).encode()).hexdigest()[:10]
            for t in tag_dirs:
                shutil.rmtree(os.path.join(t, tag), ignore_errors=True)
    json.dump(results, open(rp, 'w'), indent=1, sort_keys=True)


if __name__ == '__main__':
    main()

#!/usr/bin/env python3
"""python3 tools/coqmake.py theories/Area/File.vo ...   — build Coq targets under the shared lock."""
import os
import sys
ROOT = os.path.dirname(os.path.dirname(os.path.abspath(__file__)))
sys.path.insert(0, os.path.join(ROOT, 'lib'))
import engine  # noqa: E402
ok, out = engine.coq_make(sys.argv[1:] or ['all'], timeout=int(os.environ.get('COQ_TIMEOUT', '1500')))
print(out[-6000:])
sys.exit(0 if ok else 1)

#!/usr/bin/env python3
"""Writes /verif/MANIFEST.json from the MANIFEST dict of every props/Cnn.py (so that adding a
property never edits a shared file by hand)."""
import json
import os
import sys

ROOT = os.path.dirname(os.path.dirname(os.path.abspath(__file__)))
sys.path.insert(0, os.path.join(ROOT, 'lib'))
import engine  # noqa: E402

ALL = ['C%02d' % i for i in range(1, 21)]
PENDING = json.load(open(os.path.join(ROOT, 'tools', 'not_applicable.json')))


def main():
    checks = []
    claimed = set()
    allow = set(json.load(open(os.path.join(ROOT, 'tools', 'claimed.json'))))
    for pid in engine.all_props():
        if pid not in allow:
            continue
        prop = engine.load_prop(pid)
        m = prop.MANIFEST
        claimed.add(pid)
        checks.append({
            'property_id': pid,
            'quick_cmd': './check %s --tier quick' % pid,
            'thorough_cmd': './check %s --tier thorough' % pid,
            'evidence_file': 'evidence/%s.json' % pid,
            'replay_cmd_template': './check %s --replay {path}' % pid,
            'engine': 'rocq-proof+correspondence',
            'level_claimed': {'category': 'proof', 'text': m['text'], 'design_ref': m.get('design_ref', 'DESIGN.md §4 ' + pid)},
            'level_note': m['note'],
            'technique': m.get('technique', 'machine-checked proof in Rocq (Coq 8.16.1) about a Gallina model + model/implementation correspondence check'),
        })
    hooks = json.load(open(os.path.join(ROOT, 'tools', 'hooks.json')))
    man = {
        'version': 1,
        'setup_cmd': './check --setup',
        'hooks': hooks,
        'engines': [{
            'name': 'rocq-proof+correspondence', 'path': 'check',
            'serves_properties': sorted(claimed),
            'kind_free_text': 'Rocq (Coq 8.16.1) theorems about hand-written Gallina models (coq/theories), constants regenerated '
                              'from /repo (tools/extract_consts.py), extracted OCaml model run against a Rust harness linked to /repo '
                              '(harness/), implementation-only property oracle as failing-input search (props/*.py, lib/engine.py)'}],
        'checks': checks,
        'not_applicable': [{'property_id': p, 'reason': PENDING.get(p, 'check not built yet')} for p in ALL if p not in claimed],
        'notes': 'See DESIGN.md. Every check: regenerate Gen/Extracted.v from /repo, make the Coq targets (full .vo), audit axioms '
                 '(Print Assumptions) and forbidden constructs, rebuild the Rust harness against /repo, run model and implementation on '
                 'the same cases, run the property oracle on the implementation.',
    }
    json.dump(man, open(os.path.join(ROOT, 'MANIFEST.json'), 'w'), indent=1)
    print('MANIFEST.json: %d checks, %d not claimed' % (len(checks), len(man['not_applicable'])))


if __name__ == '__main__':
    main()

"""Shared generators of FTL source text for the syntax properties (C01–C05).
Every random choice comes from the rng passed in."""
import itertools
import os

REPO = os.environ.get('VERIF_REPO', '/repo')

# token alphabet for random / exhaustive token strings (bytes)
TOKENS = [
    b'a', b'B', b'key', b'-t', b'x1', b' ', b'  ', b'    ', b'\n', b'\r\n', b'\r', b'\t', b'=', b' = ',
    b'{', b'}', b'{ ', b' }', b'(', b')', b'[', b']', b'*[', b'*', b'.', b'.attr', b'->', b' ->\n', b'$', b'$v', b'-',
    b'#', b'# ', b'##', b'## ', b'###', b'### ', b'"', b'\\', b'\\u', b'\\U', b'\\"', b'\\{', b'\\\\',
    b'0', b'1.5', b'-2', b':', b',', b'FUN', b'FUN(', b'one', b'other', b'[one]', b'*[other]',
    b'\xc3\xa9', b'\xe2\x82\xac', b'\xf0\x9f\x98\x80', b'0041', b'00e9', b'D800', b'110000',
    b'\n ', b'\n    ', b'\n  .', b'\n [', b'\n *', b'\n }', b'\na', b'\n-', b'\n#',
]

SMALL = [b'a', b' ', b'\n', b'=', b'{', b'}', b'"', b'\\u', b'\xc3\xa9', b'\xf0\x9f\x98\x80', b'#', b'-', b'.', b'[', b'*',
         b'(', b')', b'$', b'\r\n', b'\r', b'\t', b'1', b':', b'->']


def fixtures():
    out = []
    root = os.path.join(REPO, 'fluent-syntax')
    for sub in ['tests/fixtures', 'tests/fixtures/benches', 'tests/fixtures/normalized', 'benches', 'benches/contexts/browser', 'benches/contexts/preferences']:
        d = os.path.join(root, sub)
        if not os.path.isdir(d):
            continue
        for f in sorted(os.listdir(d)):
            if f.endswith('.ftl'):
                b = open(os.path.join(d, f), 'rb').read()
                try:
                    b.decode('utf-8')
                except UnicodeDecodeError:
                    continue
                out.append((sub + '/' + f, b))
    rd = os.path.join(REPO, 'fluent-bundle', 'tests', 'fixtures')
    return out


def token_strings(rng, n, maxlen, tokens=TOKENS):
    out = []
    for _ in range(n):
        k = rng.randint(1, maxlen)
        out.append(b''.join(rng.choice(tokens) for _ in range(k)))
    return out


def exhaustive(alphabet, maxlen):
    for n in range(0, maxlen + 1):
        for seq in itertools.product(alphabet, repeat=n):
            yield b''.join(seq)


def split_tokens(text):
    """crude tokenisation of FTL text for mutation: identifiers, runs of spaces, single other chars (char-wise, UTF-8 safe)."""
    s = text.decode('utf-8')
    toks = []
    i = 0
    while i < len(s):
        c = s[i]
        if c.isalnum() or c == '_':
            j = i
            while j < len(s) and (s[j].isalnum() or s[j] in '_-'):
                j += 1
            toks.append(s[i:j])
            i = j
        elif c == ' ':
            j = i
            while j < len(s) and s[j] == ' ':
                j += 1
            toks.append(s[i:j])
            i = j
        else:
            toks.append(c)
            i += 1
    return toks


def mutate(rng, text, k=1):
    toks = split_tokens(text)
    for _ in range(k):
        if not toks:
            toks = ['a']
        op = rng.randrange(7)
        i = rng.randrange(len(toks))
        if op == 0:
            del toks[i]
        elif op == 1:
            toks.insert(i, toks[i])
        elif op == 2:
            toks.insert(i, rng.choice(TOKENS).decode('utf-8'))
        elif op == 3:
            toks = toks[:i]
        elif op == 4:
            toks.insert(i + 1, rng.choice(['é', '€', '😀']))
        elif op == 5:
            toks[i] = rng.choice(TOKENS).decode('utf-8')
        else:
            j = rng.randrange(len(toks))
            toks[i], toks[j] = toks[j], toks[i]
    return ''.join(toks).encode('utf-8')


# ---------------------------------------------------------------------------------------------
# grammar-directed generator of well-formed resources (structured, mostly valid)

IDS = ['a', 'b', 'key', 'msg-1', 'x_y', 'Z9']
TEXTS = ['x', 'Hello', 'a b', 'é', 'x.y', '1', 'w [z', 'q*', 'tail ', '"q"', '\\']
FUNCS = ['FUN', 'NUMBER', 'F-1_X']


def gen_inline(rng, depth):
    k = rng.randrange(9 if depth > 0 else 6)
    if k == 0:
        return '"' + rng.choice(['', 'abc', '\\u00e9', '\\"', '\\\\', '\\{', 'é', '\\U01F600', ' sp ']) + '"'
    if k == 1:
        return rng.choice(['0', '1', '-1', '3.14', '-0.5', '007', '1.000'])
    if k == 2:
        return '$' + rng.choice(IDS)
    if k == 3:
        return rng.choice(IDS) + rng.choice(['', '', '.' + rng.choice(IDS)])
    if k == 4:
        return '-' + rng.choice(IDS)
    if k == 5:
        return '-' + rng.choice(IDS) + gen_args(rng, 0)
    if k == 6:
        return rng.choice(FUNCS) + gen_args(rng, depth - 1)
    if k == 7:
        return '{' + rng.choice(['', ' ']) + gen_inline(rng, depth - 1) + rng.choice(['', ' ']) + '}'
    return '-' + rng.choice(IDS) + gen_args(rng, depth - 1)


def gen_args(rng, depth):
    pos = [gen_inline(rng, depth) for _ in range(rng.randrange(3))]
    names = rng.sample(IDS, rng.randrange(3))
    named = [n + rng.choice([':', ': ', ' : ']) + rng.choice(['"v"', '1', '-2.5']) for n in names]
    allargs = pos + named
    sep = rng.choice([', ', ',', ' ,\n   '])
    return rng.choice(['(', ' (', '( ']) + sep.join(allargs) + rng.choice(['', ',', ' ']) + ')'


def gen_placeable(rng, depth, indent):
    if depth > 0 and rng.random() < 0.3:
        sel = rng.choice(['$' + rng.choice(IDS), rng.choice(FUNCS) + gen_args(rng, 0), '1', '"s"', '-' + rng.choice(IDS) + '.' + rng.choice(IDS)])
        nvar = rng.randint(1, 3)
        d = rng.randrange(nvar)
        keys = rng.sample(['one', 'other', 'few', '0', '1', '2.5', 'many'], nvar)
        ind = ' ' * (indent + 4)
        s = '{ ' + sel + ' ->' + rng.choice(['', ' ', '   ']) + '\n'
        for i, k in enumerate(keys):
            s += ind + ('*' if i == d else rng.choice(['', ' '])) + '[' + rng.choice(['', ' ']) + k + rng.choice(['', ' ']) + ']' + rng.choice([' ', '']) \
                + gen_pattern(rng, depth - 1, indent + 8, inline_only=rng.random() < 0.7) + '\n'
        s += ' ' * indent + '}'
        return s
    return '{' + rng.choice(['', ' ', '  ']) + gen_inline(rng, depth) + rng.choice(['', ' ']) + '}'


def gen_pattern(rng, depth, indent, inline_only=False):
    """pattern text starting right after '=' / ']' (may start with a line break when multi-line)."""
    lines = 1 if inline_only else rng.choice([1, 1, 1, 2, 3])
    out = ''
    for ln in range(lines):
        parts = []
        for j in range(rng.randint(1, 3)):
            if rng.random() < 0.45:
                parts.append(gen_placeable(rng, depth, indent))
            else:
                t = rng.choice(TEXTS)
                if j == 0 and ln > 0 and t[0] in '.[*':
                    t = 'x' + t
                parts.append(t)
        line = ''.join(parts)
        if ln == 0:
            out += line
        else:
            if rng.random() < 0.15:
                out += '\n' + rng.choice(['', ' ', '      '])
            out += '\n' + ' ' * (indent + rng.choice([0, 0, 1, 2, 4]) if line[0] != '{' or True else indent) + line
    if lines > 1 and rng.random() < 0.5:
        out = '\n' + ' ' * indent + out.lstrip(' ')
    return out


def gen_entry(rng, depth=2):
    k = rng.randrange(10)
    eol = rng.choice(['\n', '\n', '\r\n'])
    if k == 0:
        lvl = rng.choice(['#', '##', '###'])
        return ''.join(lvl + rng.choice(['', ' c', ' comment é', ' ']) + '\n' for _ in range(rng.randint(1, 3)))
    cm = ''
    if rng.random() < 0.25:
        cm = ''.join('# ' + rng.choice(['c1', 'doc', '']) + '\n' for _ in range(rng.randint(1, 2)))
        cm = cm.replace('# \n', '#\n')
    ident = rng.choice(IDS)
    head = ('-' if k in (1, 2) else '') + ident + rng.choice([' = ', '=', ' =', '= '])
    has_value = not (k == 3)
    body = gen_pattern(rng, depth, 4) if has_value else ''
    if k == 3:
        head = ident + ' ='
    attrs = ''
    for _ in range(rng.choice([0, 0, 1, 2]) if k != 3 else rng.randint(1, 2)):
        attrs += '\n' + rng.choice(['    ', '  ', ' ']) + '.' + rng.choice(IDS) + rng.choice([' = ', '=']) + gen_pattern(rng, depth - 1, 8)
    s = cm + head + body + attrs + '\n'
    if eol == '\r\n':
        s = s.replace('\n', '\r\n')
    return s


def gen_resource(rng, n_entries=None):
    n = n_entries if n_entries is not None else rng.randint(1, 5)
    parts = []
    for _ in range(n):
        parts.append(gen_entry(rng))
        parts.append(rng.choice(['', '', '\n', '\n\n', '  \n']))
    s = ''.join(parts)
    if rng.random() < 0.2:
        s = s.rstrip('\n')
    return s.encode('utf-8')

"""S-expression case format shared with coq/theories/Base/Sexp.v, the OCaml driver and the Rust harness.
Python representation:  bytes -> atom, int -> integer, list/tuple -> list.  str is accepted as an atom (UTF-8)."""
import re

_SYM = re.compile(rb'[A-Za-z_][A-Za-z0-9_.\-]*\Z')


def dumps(x):
    out = []
    _dump(x, out)
    return ''.join(out)


def _dump(x, out):
    if isinstance(x, bool):
        out.append('true' if x else 'false')
    elif isinstance(x, int):
        out.append(str(x))
    elif isinstance(x, str):
        _dump(x.encode('utf-8'), out)
    elif isinstance(x, (bytes, bytearray)):
        b = bytes(x)
        if _SYM.match(b):
            out.append(b.decode('ascii'))
        else:
            out.append('#' + b.hex())
    elif isinstance(x, (list, tuple)):
        out.append('(')
        first = True
        for y in x:
            if not first:
                out.append(' ')
            first = False
            _dump(y, out)
        out.append(')')
    elif x is None:
        out.append('none')
    else:
        raise TypeError(type(x))


_TOK = re.compile(r'\s*(\(|\)|#[0-9a-fA-F]*|-?[0-9]+|[A-Za-z_][A-Za-z0-9_.\-]*)')


def loads(s):
    pos = 0
    stack = [[]]
    n = len(s)
    while True:
        m = _TOK.match(s, pos)
        if not m:
            if s[pos:].strip() == '':
                break
            raise ValueError('bad sexp at %d: %r' % (pos, s[pos:pos + 30]))
        t = m.group(1)
        pos = m.end()
        if t == '(':
            stack.append([])
        elif t == ')':
            l = stack.pop()
            stack[-1].append(l)
        elif t[0] == '#':
            stack[-1].append(bytes.fromhex(t[1:]))
        elif t[0] == '-' or t[0].isdigit():
            stack[-1].append(int(t))
        else:
            stack[-1].append(t.encode('ascii'))
        if pos >= n:
            break
    if len(stack) != 1 or len(stack[0]) != 1:
        raise ValueError('unbalanced sexp')
    return stack[0][0]


def sym(x, name):
    return isinstance(x, bytes) and x == name.encode()


def tag(x):
    if isinstance(x, list) and x and isinstance(x[0], bytes):
        return x[0].decode('ascii', 'replace')
    if isinstance(x, bytes):
        return x.decode('ascii', 'replace')
    return None

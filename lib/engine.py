"""Generic machinery behind ./check: obligations (Coq build, axiom audit), correspondence
(extracted model vs Rust harness on the same cases), implementation-only oracle, decision rule,
evidence and replay files.  Per-property specifics live in props/Cnn.py (see props/C11.py)."""
import fcntl
import hashlib
import importlib.util
import json
import os
import random
import re
import shutil
import subprocess
import sys
import time

ROOT = os.path.dirname(os.path.dirname(os.path.abspath(__file__)))
REPO = os.environ.get('VERIF_REPO', '/repo')
CACHE = os.path.join(ROOT, '.cache')
COQ = os.path.join(ROOT, 'coq')
OCAML = os.path.join(COQ, 'ocaml')
HARNESS = os.path.join(ROOT, 'harness')
TARGET = os.path.join(CACHE, 'target')
if os.path.realpath(REPO) != '/repo':
    # mutation self-test against a scratch copy of the repository: own manifest, own target dir
    _tag = hashlib.sha1(os.path.realpath(REPO).encode()).hexdigest()[:10]
    HARNESS = os.path.join(CACHE, 'harness_alt', _tag)
    TARGET = os.path.join(CACHE, 'target_alt', _tag)
    os.makedirs(HARNESS, exist_ok=True)
    _toml = open(os.path.join(ROOT, 'harness', 'Cargo.toml')).read().replace('"/repo/', '"%s/' % os.path.realpath(REPO))
    if not os.path.exists(os.path.join(HARNESS, 'Cargo.toml')) or open(os.path.join(HARNESS, 'Cargo.toml')).read() != _toml:
        open(os.path.join(HARNESS, 'Cargo.toml'), 'w').write(_toml)
    if not os.path.islink(os.path.join(HARNESS, 'src')):
        os.symlink(os.path.join(ROOT, 'harness', 'src'), os.path.join(HARNESS, 'src'))
OUT = os.path.join(ROOT, 'out')
NPROC = min(16, os.cpu_count() or 4)
sys.setrecursionlimit(100000)

sys.path.insert(0, os.path.join(ROOT, 'lib'))
import sexp  # noqa: E402

ENV = dict(os.environ)
ENV.update({'CARGO_NET_OFFLINE': 'true', 'CARGO_TARGET_DIR': TARGET, 'RUSTFLAGS': os.environ.get('RUSTFLAGS', '') + ' --cfg fluent_rs_verif -Awarnings'})

FORBIDDEN = re.compile(r'\b(Admitted|admit|Axiom|Axioms|Parameter|Parameters|Conjecture|Conjectures|Abort All|Unset Guard Checking|Unset Positivity Checking|Unset Universe Checking|bypass_check|Admit Obligations|give_up)\b|type-in-type|impredicative-set')
# axioms of Coq's own standard library that a proof may rely on; each use is reported in the evidence
ALLOWED_AXIOMS = {
    'functional_extensionality_dep', 'FunctionalExtensionality.functional_extensionality_dep',
    'Eqdep.Eq_rect_eq.eq_rect_eq', 'eq_rect_eq', 'proof_irrelevance', 'ProofIrrelevance.proof_irrelevance',
    'Classical_Prop.classic', 'classic', 'JMeq_eq', 'JMeq.JMeq_eq',
    'propositional_extensionality', 'PropExtensionality.propositional_extensionality',
}


def log(*a):
    print(*a, file=sys.stderr, flush=True)


class Lock:
    def __init__(self, name):
        os.makedirs(CACHE, exist_ok=True)
        self.path = os.path.join(CACHE, name + '.lock')

    def __enter__(self):
        self.f = open(self.path, 'w')
        fcntl.flock(self.f, fcntl.LOCK_EX)
        return self

    def __exit__(self, *a):
        fcntl.flock(self.f, fcntl.LOCK_UN)
        self.f.close()


def run(cmd, cwd=None, timeout=None, env=None, stdin=None, capture=True):
    t0 = time.time()
    try:
        p = subprocess.run(cmd, cwd=cwd, env=env or ENV, input=stdin, timeout=timeout,
                           stdout=subprocess.PIPE if capture else None,
                           stderr=subprocess.STDOUT if capture else None, text=True)
        return p.returncode, p.stdout or '', time.time() - t0
    except subprocess.TimeoutExpired as e:
        out = e.stdout if isinstance(e.stdout, str) else (e.stdout or b'').decode('utf-8', 'replace')
        return 124, out + '\nTIMEOUT after %ss' % timeout, time.time() - t0


# ---------------------------------------------------------------------------------------------
# build steps

def load_prop(pid):
    path = os.path.join(ROOT, 'props', pid + '.py')
    spec = importlib.util.spec_from_file_location('prop_' + pid, path)
    mod = importlib.util.module_from_spec(spec)
    spec.loader.exec_module(mod)
    return mod


def all_props():
    return sorted(f[:-3] for f in os.listdir(os.path.join(ROOT, 'props')) if re.match(r'^C\d+\.py$', f))


def gen_extracted():
    """Regenerate Gen/Extracted.v from /repo's current sources (tools/extract_consts.py)."""
    rc, out, _ = run([sys.executable, os.path.join(ROOT, 'tools', 'extract_consts.py'), REPO,
                      os.path.join(COQ, 'theories', 'Gen', 'Extracted.v')])
    if rc != 0:
        log(out)
    return rc == 0, out


def coq_project():
    vs = []
    for d, _, fs in os.walk(os.path.join(COQ, 'theories')):
        for f in fs:
            if f.endswith('.v'):
                vs.append(os.path.relpath(os.path.join(d, f), COQ))
    vs.sort()
    text = '-Q theories FluentV\n' + '\n'.join(vs) + '\n'
    p = os.path.join(COQ, '_CoqProject')
    old = open(p).read() if os.path.exists(p) else None
    if old != text or not os.path.exists(os.path.join(COQ, 'Makefile')):
        open(p, 'w').write(text)
        os.makedirs(os.path.join(OCAML, 'gen'), exist_ok=True)
        rc, out, _ = run(['coq_makefile', '-f', '_CoqProject', '-o', 'Makefile'], cwd=COQ)
        if rc != 0:
            raise RuntimeError('coq_makefile failed: ' + out)


def coq_make(targets, timeout=1500, jobs=NPROC):
    """Full .vo build of the given targets (never -vos).  Returns (ok, log)."""
    with Lock('coq'):
        gen_extracted()
        coq_project()
        os.makedirs(os.path.join(OCAML, 'gen'), exist_ok=True)
        rc, out, dt = run(['make', '-j%d' % jobs, '-k'] + list(targets), cwd=COQ, timeout=timeout)
        return rc == 0, out


def forbidden_scan():
    bad = []
    for d, _, fs in os.walk(os.path.join(COQ, 'theories')):
        for f in fs:
            if not f.endswith('.v'):
                continue
            p = os.path.join(d, f)
            text = open(p, encoding='utf-8').read()
            text = strip_coq_comments(text)
            for i, line in enumerate(text.split('\n'), 1):
                if FORBIDDEN.search(line):
                    bad.append('%s:%d: %s' % (os.path.relpath(p, ROOT), i, line.strip()[:100]))
    return bad


def strip_coq_comments(text):
    out = []
    depth = 0
    i = 0
    n = len(text)
    instr = False
    while i < n:
        if depth == 0 and text[i] == '"':
            instr = not instr
            out.append(text[i])
            i += 1
        elif not instr and text.startswith('(*', i):
            depth += 1
            i += 2
        elif not instr and depth > 0 and text.startswith('*)', i):
            depth -= 1
            i += 2
        else:
            if depth == 0:
                out.append(text[i])
            elif text[i] == '\n':
                out.append('\n')
            i += 1
    return ''.join(out)


def theorem_names(props_file):
    text = strip_coq_comments(open(props_file, encoding='utf-8').read())
    return re.findall(r'^\s*(?:Theorem|Corollary)\s+([A-Za-z0-9_\']+)', text, re.M)


def coqc_scratch(vf, d, targets, timeout=600):
    """Compile a scratch file against the theories.  Done under the Coq lock and after re-making the targets it loads, so that a
    concurrent check (another property, or a run against another repo copy that regenerates Gen/Extracted.v) cannot leave the
    loaded .vo files mutually inconsistent while coqc reads them."""
    with Lock('coq'):
        gen_extracted()
        if targets:
            run(['make', '-j%d' % NPROC, '-k'] + list(targets), cwd=COQ, timeout=1500)
        return run(['coqc', '-noglob', '-Q', os.path.join(COQ, 'theories'), 'FluentV', vf], cwd=d, timeout=timeout)


def print_assumptions(pid, props_module, names):
    """Compile a scratch file that prints the assumptions of every property theorem.
    Returns dict name -> list of axioms ([] = closed under the global context)."""
    d = os.path.join(CACHE, 'assum')
    os.makedirs(d, exist_ok=True)
    vf = os.path.join(d, 'Assum_%s.v' % pid)
    with open(vf, 'w') as f:
        f.write('From FluentV Require Import %s.\n' % props_module)
        for n in names:
            f.write('Goal True. idtac "@@BEGIN %s". exact I. Qed.\nPrint Assumptions %s.\n' % (n, n))
        f.write('Goal True. idtac "@@END". exact I. Qed.\n')
    rc, out, _ = coqc_scratch(vf, d, ['theories/' + m_.replace('.', '/') + '.vo' for m_ in props_module.split()])
    res = {}
    if rc != 0:
        return None, out
    cur = None
    buf = []
    for line in out.split('\n'):
        m = re.match(r'@@BEGIN (\S+)', line)
        if m or line.startswith('@@END'):
            if cur is not None:
                res[cur] = parse_assumptions('\n'.join(buf))
            cur = m.group(1) if m else None
            buf = []
        else:
            buf.append(line)
    return res, out


def parse_assumptions(text):
    if 'Closed under the global context' in text:
        return []
    ax = []
    for m in re.finditer(r'^([A-Za-z_][A-Za-z0-9_.\']*)\s*:', text, re.M):
        ax.append(m.group(1))
    return ax or ['<unparsed: %s>' % text.strip()[:80]]


def build_model(name):
    """Link the extracted model <name>_model.ml with the generic driver."""
    with Lock('ocaml'):
        gen = os.path.join(OCAML, 'gen')
        src = os.path.join(gen, name + '_model.ml')
        if not os.path.exists(src):
            return False, 'missing ' + src
        main = os.path.join(gen, name + '_main.ml')
        body = open(src).read() + '\n' + open(os.path.join(OCAML, 'driver_body.ml')).read()
        binp = os.path.join(OCAML, 'bin', name + '_model')
        if os.path.exists(main) and open(main).read() == body and os.path.exists(binp):
            return True, ''
        os.makedirs(os.path.join(OCAML, 'bin'), exist_ok=True)
        open(main, 'w').write(body)
        rc, out, _ = run(['ocamlfind', 'ocamlopt', '-w', '-a', '-inline', '200', main, '-o', binp], cwd=gen, timeout=600)
        return rc == 0, out


def build_harness(bins, release=False):
    with Lock('cargo'):
        lock_src = os.path.join(REPO, 'Cargo.lock')
        if not os.path.exists(lock_src):
            lock_src = '/repo/Cargo.lock'
        lock_dst = os.path.join(HARNESS, 'Cargo.lock')
        if not os.path.exists(lock_dst) or open(lock_src).read() != open(lock_dst).read():
            shutil.copyfile(lock_src, lock_dst)
        cmd = ['cargo', 'build', '--offline', '-q']
        if release:
            cmd.append('--release')
        for b in bins:
            cmd += ['--bin', b]
        rc, out, _ = run(cmd, cwd=HARNESS, timeout=1800)
        if rc != 0 and 'lock file' in out:
            os.remove(lock_dst)
            shutil.copyfile(lock_src, lock_dst)
            rc, out, _ = run(cmd, cwd=HARNESS, timeout=1800)
        return rc == 0, out


def harness_bin(name, release=False):
    return os.path.join(TARGET, 'release' if release else 'debug', name)


def model_bin(name):
    return os.path.join(OCAML, 'bin', name + '_model')


# ---------------------------------------------------------------------------------------------
# running cases

_HUNG = set()


def run_lines(binary, lines, timeout=120, shards=NPROC, wrap_ulimit=False):
    """Feed lines to `binary` (one result per line), sharded over processes.  Returns list of
    result lines aligned with input; a shard that dies yields 'CRASH(<rc>)' for its unanswered lines."""
    if not lines:
        return []
    shards = max(1, min(shards, (len(lines) + 199) // 200))
    chunks = [lines[i::shards] for i in range(shards)]
    import threading
    results = [None] * shards

    def run_chunk(lines_):
        """run one process over lines_; returns (answers, returncode, stderr_tail, timed_out)"""
        cmd = [binary]
        if wrap_ulimit:
            cmd = ['bash', '-c', 'ulimit -s unlimited 2>/dev/null; exec "$0"', binary]
        p = subprocess.Popen(cmd, stdin=subprocess.PIPE, stdout=subprocess.PIPE, stderr=subprocess.PIPE, env=ENV)
        timed_out = False
        try:
            # once one chunk of this binary has hung, later chunks get a short leash
            o, e = p.communicate(('\n'.join(lines_) + '\n').encode(), timeout=(15 if binary in _HUNG else timeout))
        except subprocess.TimeoutExpired:
            p.kill()
            o, e = p.communicate()
            timed_out = True
            _HUNG.add(binary)
        outl = o.decode('utf-8', 'replace').split('\n')
        if outl and outl[-1] == '':
            outl.pop()
        return outl[:len(lines_)], p.returncode, (e or b'')[-200:], timed_out

    def feed(i):
        # A crash, abort or hang of the implementation on one case must be pinned on THAT case: the first
        # unanswered line is the culprit; the rest of the chunk is re-run in a fresh process.
        todo = chunks[i]
        answers = []
        crashes = 0
        while todo:
            outl, rc, err, timed_out = run_chunk(todo)
            answers.extend(outl)
            if len(outl) >= len(todo):
                break
            answers.append('(CRASH %s %s)' % ('timeout' if timed_out else rc, sexp.dumps(err)))
            crashes += 1
            todo = todo[len(outl) + 1:]
            if crashes >= 4:
                answers.extend(['(NOT-RUN)'] * len(todo))
                break
        results[i] = answers

    ths = [threading.Thread(target=feed, args=(i,)) for i in range(shards)]
    for t in ths:
        t.start()
    for t in ths:
        t.join()
    out = [None] * len(lines)
    for i in range(shards):
        for j, r in enumerate(results[i]):
            out[i + j * shards] = r
    return out


def run_isolated(binary, lines, timeout=60, wrap_ulimit=False):
    """One process per case (a crash or abort of the implementation is observed, not suffered)."""
    from concurrent.futures import ThreadPoolExecutor

    def one(line):
        cmd = [binary]
        if wrap_ulimit:
            cmd = ['bash', '-c', 'ulimit -s unlimited 2>/dev/null; exec "$0"', binary]
        try:
            p = subprocess.run(cmd, input=(line + '\n').encode(), stdout=subprocess.PIPE, stderr=subprocess.PIPE,
                               timeout=timeout, env=ENV)
        except subprocess.TimeoutExpired:
            return '(CRASH timeout #)'
        out = p.stdout.decode('utf-8', 'replace').split('\n')[0]
        if p.returncode != 0 or not out:
            return '(CRASH %s %s)' % (p.returncode, sexp.dumps((p.stderr or b'')[-160:]))
        return out

    with ThreadPoolExecutor(max_workers=NPROC) as ex:
        return list(ex.map(one, lines))


def run_one(binary, line, timeout=60):
    return run_lines(binary, [line], timeout=timeout, shards=1)[0]


# ---------------------------------------------------------------------------------------------
# known findings

def load_known():
    p = os.path.join(ROOT, 'known_findings.json')
    if not os.path.exists(p):
        return {'findings': [], 'fixed': []}
    return json.load(open(p))


# ---------------------------------------------------------------------------------------------
# the check proper

class Result:
    def __init__(self):
        self.violations = []      # (description, replay_path, found_input: bool)
        self.known = {}           # finding id -> count
        self.notes = []


def write_replay(pid, kind, payload):
    os.makedirs(os.path.join(OUT, 'replay'), exist_ok=True)
    h = hashlib.sha1(json.dumps(payload, sort_keys=True).encode()).hexdigest()[:12]
    p = os.path.join(OUT, 'replay', '%s-%s-%s.json' % (pid, kind, h))
    json.dump(payload, open(p, 'w'), indent=1)
    return p


def check_property(pid, tier, seed):
    t0 = time.time()
    prop = load_prop(pid)
    res = Result()
    known = load_known()
    kf = {f['id']: f for f in known.get('findings', []) if f['property'] == pid or pid in f.get('also', [])}
    ev = {'property_id': pid, 'tier': tier, 'seed': seed, 'level': 'proof', 'coverage': {}, 'assumptions': [],
          'wall_s': 0.0, 'violations': 0}
    cov = ev['coverage']

    # ---- 1. obligations -------------------------------------------------------------------
    props_file = os.path.join(COQ, prop.PROPS_FILE)
    names = theorem_names(props_file)
    extra_props = list(getattr(prop, 'EXTRA_PROPS', []))      # [(file, module)]: further files holding property theorems
    for f_, _m in extra_props:
        names += theorem_names(os.path.join(COQ, f_))
    targets = [prop.PROPS_FILE[:-2] + '.vo'] + [f_[:-2] + '.vo' for f_, _m in extra_props] + [t for t in getattr(prop, 'COQ_TARGETS', [])]
    ok_build, build_log = coq_make(targets)
    obligations_broken = []
    if not ok_build:
        errs = re.findall(r'File "([^"]+)", line (\d+)[^\n]*\n(?:[^\n]*\n)?Error:[^\n]*', build_log)
        obligations_broken.append('coq build failed: ' + (build_log.strip().split('\n')[-15:] and '\n'.join(build_log.strip().split('\n')[-15:])))
    bad = forbidden_scan()
    if bad:
        obligations_broken.append('forbidden constructs: ' + '; '.join(bad[:5]))
    assum = None
    axioms_used = set()
    if ok_build:
        assum, alog = print_assumptions(pid, ' '.join([prop.PROPS_MODULE] + [m_ for _f, m_ in extra_props]), names)
        if assum is None:
            obligations_broken.append('Print Assumptions failed: ' + alog[-500:])
        else:
            for n in names:
                axs = assum.get(n)
                if axs is None:
                    obligations_broken.append('no assumptions report for ' + n)
                    continue
                for a in axs:
                    axioms_used.add(a)
                    if a not in ALLOWED_AXIOMS and a.split('.')[-1] not in ALLOWED_AXIOMS:
                        obligations_broken.append('theorem %s depends on non-allowlisted axiom %s' % (n, a))
    pinned = getattr(prop, 'REQUIRED_THEOREMS', [])
    for n in pinned:
        if n not in names:
            obligations_broken.append('pinned theorem %s missing from %s' % (n, prop.PROPS_FILE))
    cov['obligations'] = len(names)
    cov['discharged'] = len(names) if (ok_build and not obligations_broken) else 0
    cov['theorems'] = names
    cov['checker_cmd'] = 'cd coq && coq_makefile -f _CoqProject -o Makefile && make %s  (coqc 8.16.1, full .vo); then Print Assumptions per theorem' % ' '.join(targets)
    cov['trusted_base'] = list(getattr(prop, 'TRUSTED', [])) + [
        'Coq 8.16.1 kernel (coqc; vm_compute only in Examples); no native_compute',
        'axioms reported by Print Assumptions: ' + (', '.join(sorted(axioms_used)) if axioms_used else 'none (Closed under the global context)'),
        'extraction: ExtrOcamlBasic only, no Extract Constant; OCaml 4.13.1; coq/ocaml/driver_body.ml',
        'tools/extract_consts.py (constants regenerated from /repo into Gen/Extracted.v)',
        'correspondence check = differential testing of the extracted model against the Rust code on generated cases',
    ]

    # ---- 2. correspondence + oracle ----------------------------------------------------------
    corr_broken = []
    stats = {}
    run_ok = True
    model_ok = False
    if ok_build and getattr(prop, 'MODEL', None):
        model_ok, mlog = build_model(prop.MODEL)
        if not model_ok:
            obligations_broken.append('model extraction/compile failed: ' + mlog[-400:])
    bins = getattr(prop, 'HARNESS_BINS', [])
    hok, hlog = build_harness(bins)
    if not hok:
        # the implementation (or harness against it) no longer builds: nothing can be shown
        p = write_replay(pid, 'build', {'property': pid, 'kind': 'harness-build-failed', 'log': hlog[-3000:]})
        res.violations.append(('harness does not build against /repo', p, False))
        run_ok = False
    if getattr(prop, 'RELEASE_TOO', False) and hok:
        hok2, hlog2 = build_harness(bins, release=True)
        if not hok2:
            p = write_replay(pid, 'build', {'property': pid, 'kind': 'harness-release-build-failed', 'log': hlog2[-3000:]})
            res.violations.append(('harness (release) does not build against /repo', p, False))
            run_ok = False

    evaluations = 0
    distinct = set()
    samples = []
    # A change in an anchored source file is not an alarm; it only escalates the run to the thorough generators,
    # because the hand-written model was validated against the recorded version of that file.
    recorded = {}
    hp = os.path.join(ROOT, 'tools', 'anchor_hashes.json')
    if os.path.exists(hp):
        recorded = json.load(open(hp)).get(pid, {})
    current = source_hashes(getattr(prop, 'ANCHORS', []))
    changed_anchors = sorted(a for a in current if a in recorded and recorded[a] != current[a])
    cov['anchors_changed_since_model_validation'] = changed_anchors
    if run_ok:
        escalate = bool(obligations_broken) or bool(changed_anchors)
        ctx = RunCtx(pid, prop, tier, seed, model_ok, res, kf)
        ctx.run_all('thorough' if escalate else tier)
        if ctx.disagreements and tier == 'quick' and not escalate:
            # correspondence broken: search harder with the oracle before reporting
            ctx.run_all('thorough', extra_seed=1)
        evaluations = ctx.evaluations
        distinct = ctx.distinct
        samples = ctx.samples
        stats = ctx.stats
        oracle_failures = ctx.oracle_failures
        # decision
        for (case, why) in oracle_failures[:3]:
            p = write_replay(pid, 'oracle', {'property': pid, 'kind': 'property-oracle-failed-on-implementation',
                                             'case': case, 'why': why,
                                             'replay': './check %s --replay <this file>' % pid})
            res.violations.append((why, p, True))
        if not oracle_failures:
            if ctx.disagreements:
                case, mo, io, gen = ctx.disagreements[0]
                p = write_replay(pid, 'corr', {'property': pid, 'kind': 'correspondence-broken',
                                               'what': 'model and implementation disagree; the theorems of %s no longer speak about this code' % prop.PROPS_FILE,
                                               'case': case, 'model': mo, 'impl': io, 'generator': gen,
                                               'n_disagreements': len(ctx.disagreements)})
                res.violations.append(('correspondence broken (%d cases), property oracle found no failing input' % len(ctx.disagreements), p, False))
            elif obligations_broken:
                p = write_replay(pid, 'proof', {'property': pid, 'kind': 'proof-obligation-broken',
                                                'what': obligations_broken, 'theorems': names})
                res.violations.append(('proof obligation broken: ' + obligations_broken[0][:200], p, False))
        nx, xbad = extraction_cross_check(pid, prop, ctx.xpairs[:24]) if model_ok else (0, [])
        cov['extraction_cross_check'] = {'cases_re_evaluated_by_vm_compute': nx, 'disagreements': len(xbad)}
        if xbad:
            p = write_replay(pid, 'xcheck', {'property': pid, 'kind': 'extraction-disagrees-with-vm_compute', 'cases': xbad[:5]})
            res.violations.append(('extracted model and vm_compute disagree (extraction / driver untrustworthy)', p, False))
        cov['disagreements'] = len(ctx.disagreements)
        cov['oracle_failures'] = len(oracle_failures)
    cov['evaluations'] = evaluations
    cov['distinct_nontrivial'] = len(distinct)
    cov['rule'] = getattr(prop, 'RULE', '')
    cov['samples'] = samples[:8]
    cov['generator_stats'] = stats
    cov['exhaustive'] = bool(stats.get('_exhaustive', False))
    cov['source_hashes'] = source_hashes(getattr(prop, 'ANCHORS', []))
    cov['known_findings'] = res.known
    if hasattr(prop, 'extra_coverage'):
        cov.update(prop.extra_coverage())
    ev['assumptions'] = list(getattr(prop, 'ASSUMPTIONS', []))
    ev['violations'] = len(res.violations)
    ev['wall_s'] = round(time.time() - t0, 2)
    if getattr(prop, 'PARTIAL', None):
        cov['partial'] = prop.PARTIAL
    evdir = os.path.join(ROOT, 'evidence') if os.path.realpath(REPO) == '/repo' else os.path.join(OUT, 'evidence_alt')
    os.makedirs(evdir, exist_ok=True)
    json.dump(ev, open(os.path.join(evdir, pid + '.json'), 'w'), indent=1, sort_keys=True)

    for fid, n in sorted(res.known.items()):
        print('KNOWN-FINDING: property=%s %s (%s; %d cases this run)' % (pid, fid, kf[fid]['what'], n))
    for fid, f in sorted(kf.items()):
        if f.get('static') and fid not in res.known:
            print('KNOWN-FINDING: property=%s %s (%s; not executed by the check)' % (pid, fid, f['what']))
    seen = set()
    for why, path, found in res.violations:
        if path in seen:
            continue
        seen.add(path)
        log('  ' + why)
        print('VIOLATION property=%s replay=%s%s' % (pid, path, '' if found else ' no-failing-input-found'))
    if res.violations:
        return 1
    print('OK property=%s tier=%s obligations=%d/%d evaluations=%d distinct=%d wall=%.1fs' % (
        pid, tier, cov['discharged'], cov['obligations'], evaluations, len(distinct), time.time() - t0))
    return 0


def record_hashes():
    out = {}
    for pid in all_props():
        out[pid] = source_hashes(getattr(load_prop(pid), 'ANCHORS', []))
    json.dump(out, open(os.path.join(ROOT, 'tools', 'anchor_hashes.json'), 'w'), indent=1, sort_keys=True)
    return out


def source_hashes(anchors):
    out = {}
    for a in anchors:
        p = os.path.join(REPO, a)
        if os.path.exists(p):
            out[a] = hashlib.sha1(open(p, 'rb').read()).hexdigest()[:16]
        else:
            out[a] = 'missing'
    return out


class RunCtx:
    def __init__(self, pid, prop, tier, seed, model_ok, res, kf):
        self.pid, self.prop, self.tier, self.seed = pid, prop, tier, seed
        self.model_ok = model_ok
        self.res = res
        self.kf = kf
        self.evaluations = 0
        self.distinct = set()
        self.samples = []
        self.stats = {}
        self.disagreements = []
        self.oracle_failures = []
        self.xpairs = []

    def corpus_cases(self):
        d = os.path.join(ROOT, 'corpus', self.pid)
        out = []
        if os.path.isdir(d):
            for f in sorted(os.listdir(d)):
                if f.endswith('.case'):
                    for line in open(os.path.join(d, f)):
                        line = line.strip()
                        if line and not line.startswith(';'):
                            out.append(line)
        return out

    def run_all(self, tier, extra_seed=0):
        prop = self.prop
        rng = random.Random(self.seed * 1000003 + extra_seed)
        batches = [('corpus', self.corpus_cases())]
        for name, cases in prop.generate(rng, tier):
            batches.append((name, cases))
        for name, cases in batches:
            cases = list(cases)
            if not cases:
                continue
            self.run_batch(name, cases)

    def run_batch(self, name, cases):
        prop = self.prop
        st = self.stats.setdefault(name, {'cases': 0})
        st['cases'] += len(cases)
        if name.startswith('exhaustive'):
            self.stats['_exhaustive'] = True
        release = getattr(prop, 'RELEASE_TOO', False)
        hb = prop.harness_for(name) if hasattr(prop, 'harness_for') else prop.HARNESS_BINS[0]
        if name in getattr(prop, 'ISOLATED', ()):
            impl = run_isolated(harness_bin(hb), cases)
            impl_rel = run_isolated(harness_bin(hb, release=True), cases) if release else None
            model = run_isolated(model_bin(prop.MODEL), cases, timeout=300, wrap_ulimit=True) if (self.model_ok and getattr(prop, 'MODEL', None)) else None
        else:
            impl = run_lines(harness_bin(hb), cases)
            impl_rel = run_lines(harness_bin(hb, release=True), cases) if release else None
            model = run_lines(model_bin(prop.MODEL), cases, timeout=3600, wrap_ulimit=True) if (self.model_ok and getattr(prop, 'MODEL', None) and name not in getattr(prop, 'NO_MODEL', ())) else None
        if name in getattr(prop, 'NO_MODEL', ()):
            # cases that are too large for the (quadratic, list-based) model: implementation + property oracle only
            model = None
            st['model'] = 'not run (oracle only)'
        self.evaluations += len(cases)
        for i, c in enumerate(cases):
            io = impl[i]
            if io == '(NOT-RUN)':
                self.stats.setdefault('_not_run_after_crashes', 0)
                self.stats['_not_run_after_crashes'] += 1
                continue
            if len(self.samples) < 8 and (i % max(1, len(cases) // 3) == 0):
                self.samples.append({'generator': name, 'case': c[:400], 'impl': io[:400]})
            if hasattr(prop, 'nontrivial'):
                key = prop.nontrivial(c, io)
                if key is not None:
                    self.distinct.add(key)
            else:
                self.distinct.add(hashlib.sha1(io.encode()).digest()[:8])
            # implementation-only property oracle
            why = None
            try:
                why = prop.oracle(c, io)
                if why is None and impl_rel is not None:
                    why = prop.oracle(c, impl_rel[i])
                    if why is None and hasattr(prop, 'release_agrees') and not prop.release_agrees(c, io, impl_rel[i]):
                        why = 'debug and release builds disagree: %s vs %s' % (io[:200], impl_rel[i][:200])
            except Exception as e:  # a harness/oracle bug must not pass silently
                why = 'oracle raised %r on output %s' % (e, io[:200])
            if why is not None:
                fid = None
                if hasattr(prop, 'classify'):
                    try:
                        fid = prop.classify(c, why, io)
                    except TypeError:
                        fid = prop.classify(c, why)
                if fid is not None and fid in self.kf:
                    self.res.known[fid] = self.res.known.get(fid, 0) + 1
                    continue
                self.oracle_failures.append((c, why))
                continue
            if model is not None:
                mo = model[i]
                if len(c) + len(mo) < 1500 and len(self.xpairs) < 40 and (i % 97 == 0 or len(self.xpairs) < 6) and not mo.startswith('(CRASH') and not mo.startswith('(DRIVER'):
                    self.xpairs.append((c, mo))
                a = prop.project(io) if hasattr(prop, 'project') else io
                b = prop.project(mo) if hasattr(prop, 'project') else mo
                if a != b:
                    self.disagreements.append((c, mo[:2000], io[:2000], name))


def gallina_sexp(x):
    """Python s-expression -> Gallina term of type Base.Sexp.sexp"""
    if isinstance(x, bool):
        return gallina_sexp(b'true' if x else b'false')
    if isinstance(x, int):
        return '(I (%d)%%Z)' % x
    if isinstance(x, (bytes, bytearray)):
        return '(A [' + '; '.join(str(b) for b in x) + ']%N)'
    return '(L [' + '; '.join(gallina_sexp(y) for y in x) + '])'


def extraction_cross_check(pid, prop, pairs):
    """Take extraction (and the OCaml driver) out of the loop on a sample: the kernel's vm_compute must give the same
    result as the extracted binary did.  pairs = [(case_line, model_output_line)].  Returns (n_checked, [disagreeing cases])."""
    ext = [t for t in getattr(prop, 'COQ_TARGETS', []) if '/Extract/' in t]
    if not ext or not pairs:
        return 0, []
    module = 'Extract.' + os.path.basename(ext[0])[:-3]
    d = os.path.join(CACHE, 'xcheck')
    os.makedirs(d, exist_ok=True)
    vf = os.path.join(d, 'XCheck_%s.v' % pid)
    with open(vf, 'w') as f:
        f.write('From FluentV Require Import Base.Sexp %s.\nFrom Coq Require Import List.\nImport ListNotations.\n' % module)
        f.write('Definition pairs : list (sexp * sexp) := [\n')
        f.write(';\n'.join('  (%s,\n   %s)' % (gallina_sexp(sexp.loads(c)), gallina_sexp(sexp.loads(o))) for c, o in pairs))
        f.write('\n].\n')
        f.write('Definition verdicts := map (fun p => sexp_eqb (run_case (fst p)) (snd p)) pairs.\n')
        f.write('Goal True. let v := eval vm_compute in verdicts in idtac "@@XCHECK" v. exact Logic.I. Qed.\n')
    rc, out, _ = coqc_scratch(vf, d, [ext[0]])
    m = re.search(r'@@XCHECK\s*\[(.*?)\]', out, re.S)
    if rc != 0 or not m:
        return 0, ['coqc failed: ' + out[-300:]]
    verdicts = [v.strip() for v in m.group(1).replace('\n', ' ').split(';') if v.strip()]
    bad = [pairs[i][0] for i, v in enumerate(verdicts) if v != 'true']
    return len(verdicts), bad


def replay(pid, path):
    prop = load_prop(pid)
    payload = json.load(open(path)) if path.endswith('.json') else {'case': open(path).read().strip()}
    print(json.dumps({k: v for k, v in payload.items() if k != 'case'}, indent=1))
    case = payload.get('case')
    if not case:
        print('no concrete case in this replay file: it names the broken obligation / correspondence')
        return 1
    targets = [prop.PROPS_FILE[:-2] + '.vo'] + list(getattr(prop, 'COQ_TARGETS', []))
    ok_build, _ = coq_make(targets)
    model_ok = ok_build and build_model(prop.MODEL)[0]
    build_harness(prop.HARNESS_BINS)
    hb = prop.HARNESS_BINS[0]
    io = run_one(harness_bin(hb), case)
    print('case : ' + case)
    print('impl : ' + io)
    if model_ok:
        print('model: ' + run_one(model_bin(prop.MODEL), case))
    why = prop.oracle(case, io)
    print('oracle: ' + ('holds' if why is None else 'FAILS: ' + why))
    return 0 if why is None else 1

"""Shared by props/C01.py, C03.py, C05.py: the `parse_all` case family and its generators."""
import sexp
import ftlgen


def case(text):
    return sexp.dumps([b'parse_all', text])


def corpus_witnesses():
    w = [
        b'a = {"\\u00\xc3\xa9"}\n', b'a = { FUN(\nb = x\nc = y\n', b'a =\n    { m }\n      x\n', b'#', b'##', b'###', b'# c', b'#c\n',
        b'-t = v\n\n\r', b'key = val\n  \r', b'a = x\r', b'\r', b' =', b'=', b'a', b'a =', b'a = ', b'-', b'-a', b'-a =', b'a = {', b'a = { ',
        b'a = { "', b'a = { "\\', b'a = { "\\u', b'a = { "\\u00', b'a = { "\\U00e', b'a = { $', b'a = { -', b'a = { -a.', b'a = { A(', b'a = { A(a:',
        b'a = { 1 ->', b'a = { 1 ->\n', b'a = { 1 ->\n *[', b'a = { 1 ->\n *[a', b'a = { 1 ->\n *[a]', b'a = { 1 ->\n *[a] x', b'a = { 1 ->\n *[a] x\n}',
        b'a = }', b'a = x }', b'# c\n\n\na = x', b'# c\n\na = x', b'# c\na = x', b'## g\na = x', b'# c\n#\n# d\n', b'#\r\n# x\r\n', b'# a\n## b\n### c\n',
        b'a = x\n .b = y\n .c =\n', b'a =\n .b = y', b'a = \xf0\x9f\x98\x80{ $x }\xc3\xa9\n', b'a = {"\xf0\x9f\x98\x80"}', b'\xc3\xa9 = x\na = y\n',
        b'a = x\n\xc3\xa9\nb = y\n', b'a = {\n  b\n}', b'a = { b.c -> \n *[x] y\n}', b'a = { -b.c -> \n *[x] y\n}', b'a = { -b.c }', b'a = { F(x: 1, x: 2) }',
        b'a = { F(x: 1, 2) }', b'a = { f() }', b'a = { F(a, b: "x",) }', b'a = {{{"x"}}}', b'a = { { b } ->\n *[x] y\n}', b'a = \\u0041', b'a = {"\\x"}', b'a = {"\\',
    ]
    return w


def standard_batches(rng, tier, quick_sizes=(4000, 3000, 3000, 3), thorough_sizes=(150000, 80000, 80000, 4)):
    nrand, nmut, nstruct, exlen = quick_sizes if tier == 'quick' else thorough_sizes
    fx = ftlgen.fixtures()
    yield ('witnesses', [case(t) for t in corpus_witnesses()])
    yield ('fixtures', [case(b) for _, b in fx if len(b) < (6000 if tier == 'quick' else 10**7)])
    yield ('exhaustive-tokens-len%d' % exlen, [case(t) for t in ftlgen.exhaustive(ftlgen.SMALL, exlen)]
           + [case(b'a = ' + t) for t in ftlgen.exhaustive(ftlgen.SMALL, exlen - 1)]
           + [case(b'a = {' + t) for t in ftlgen.exhaustive(ftlgen.SMALL, exlen - 1)])
    yield ('random-tokens', [case(t) for t in ftlgen.token_strings(rng, nrand, 12)])
    # special first characters: a byte order mark (or another non-ASCII / invisible character) in front of otherwise ordinary
    # sources, with and without a syntax error further down.  Nothing in the grammar skips a BOM, so both parsers must treat it
    # alike, and every offset they report must stay an offset into the text as given
    heads = [b'\xef\xbb\xbf', b'\xef\xbb\xbf\n', b'\xef\xbb\xbf ', b'\xe2\x80\x8b', b'\xc2\xa0', b'\xef\xbf\xbe']
    tails = [b'hello = Hi\nbye = Bye\n', b'# c\nkey = v\n', b'-t = x\n    .a = y\nm = { -t.a }\n', b'a = {\nb = 1\n', b'a = 1\nbad = { "\nc = 2\n',
             b'\nkey = v\n', b'a = { FOO(\nb = 1\n', b'## g\n\nk = { $x ->\n   *[o] y\n }\nz z\n']
    tails += [b for _, b in fx if len(b) < 400][:12]
    yield ('special-first-character', [case(h + t) for h in heads for t in tails])
    # many broken entries in one resource: every one of them is reported, by both parsers (no cap on the error list)
    many = []
    for n in (127, 128, 129, 160):
        many.append(case(b''.join(b'# c%d\nok%d = v\nbroken line %d\n' % (i, i, i) for i in range(n))))
        many.append(case(b'}x\n' * n))
    yield ('many-errors', many)
    small = [b for _, b in fx if len(b) < 1200]
    muts = []
    for _ in range(nmut):
        base = rng.choice(small) if rng.random() < 0.5 else ftlgen.gen_resource(rng)
        muts.append(case(ftlgen.mutate(rng, base, rng.randint(1, 3))))
    yield ('mutated', muts)
    yield ('structured', [case(ftlgen.gen_resource(rng)) for _ in range(nstruct)])


def parse_out(out):
    """-> (tag, [ (body, errors) x 4 ]) or (tag, None)"""
    try:
        o = sexp.loads(out)
    except ValueError:
        return ('UNPARSEABLE', None)
    t = sexp.tag(o)
    if t != 'ok':
        return (t, None)
    res = []
    for r in o[1:5]:
        if sexp.tag(r) != 'ok':
            return ('inner-' + str(sexp.tag(r)), None)
        res.append((r[1][1:], r[2]))
    return ('ok', res)


def case_text(case_line):
    return sexp.loads(case_line)[1]
